# C06 — hierarchy queries and flatten (DESIGN.md 3.7)
GP = '_ZNK5gdstk4Cell12get_polygonsEbblbmRNS_5ArrayIPNS_7PolygonEEE'
GO = '_ZNK5gdstk10Repetition11get_offsetsERNS_5ArrayINS_4Vec2EEE'
BASE = dict(APPLY=1, DEPTH=-1, FILTER=0, REFL=0, ROT0=1, EREP=0, RREP=0, FLAT=0, TWO=0)
def V(**kw):
    d = dict(BASE); d.update(kw); return d
OBLIGATIONS = [
    Ob('get_polygons_through_reference', 'C06/get_polys.c', [GP, GO, '_ZN5gdstk4Cell7flattenEbRNS_5ArrayIPNS_9ReferenceEEE'], model='ie', defines={'IE_BITS': 14, 'REAL_TOL': 1, 'QUARTER_TURN_CONTRACT': 1}, stubs=['_ZNK5gdstk7Polygon8fractureEmdRNS_5ArrayIPS0_EE', '_ZN5gdstk24is_multiple_of_pi_over_2EdRl'],
       what='Cell::get_polygons(apply_repetitions, depth, filter) on top -> reference -> leaf equals the hand-composed affine image of the leaf polygon under every reference and element repetition offset; repetitions applied or left attached denote the same shapes; depth 0 and a non-matching tag return nothing; copies are fresh',
       bound='1-vertex leaf polygon (transforms act vertex-wise), coordinates -2..2, magnification -2..2, both reflections, rotation 0 or free (c,s), element / reference repetition 2x1 / 1x2 present or not, depth in {-1, 0, 1}, filter in {none, matching, other}',
       variants=[V(), V(REFL=1, ROT0=0), V(EREP=1), V(EREP=1, APPLY=0), V(EREP=1, APPLY=0, REFL=1, ROT0=0), V(RREP=1, ROT0=0), V(RREP=1, EREP=1, APPLY=1, REFL=1, ROT0=0), V(RREP=1, EREP=1, APPLY=0, ROT0=0),
                 V(ROT0=2), V(ROT0=2, REFL=1, EREP=1, APPLY=0), V(TWO=1, FILTER=0, ROT0=0), V(TWO=1, FILTER=1, REFL=1), V(TWO=1, FILTER=2, ROT0=0), V(DEPTH=0), V(DEPTH=1, EREP=1), V(FILTER=1, EREP=1), V(FILTER=2),
                 V(FLAT=1, EREP=1, APPLY=1, REFL=1, ROT0=0), V(FLAT=1, EREP=1, APPLY=0, ROT0=0), V(FLAT=1, RREP=1)],
       unwind=11, timeout=600, mem_gb=12, real_stub_syms=['cos', 'sin', 'sincos'], nvec=20),
    Ob('get_paths_and_labels', 'C06/get_paths.c', ['_ZNK5gdstk4Cell13get_flexpathsEblbmRNS_5ArrayIPNS_8FlexPathEEE', '_ZNK5gdstk4Cell15get_robustpathsEblbmRNS_5ArrayIPNS_10RobustPathEEE', '_ZNK5gdstk4Cell10get_labelsEblbmRNS_5ArrayIPNS_5LabelEEE'],
       model='ie', defines={'IE_BITS': 14, 'REAL_TOL': 1, 'QUARTER_TURN_CONTRACT': 1, 'DIRECT': 0, 'SCALEW': 1, 'REFL': 0, 'ROT0': 1, 'FILTER': 0}, stubs=['_ZN5gdstk24is_multiple_of_pi_over_2EdRl'], rename={'strlen': 'my_strlen1'},
       what='Cell::get_flexpaths / get_robustpaths / get_labels on the cell itself and through a reference: fresh copies; a tag filter keeps exactly the path elements (labels) with that tag, in order, and every other field of the path (spine, trafo, width/offset scales, end point, tolerance, flags, per-element settings); through the reference the copy is mapped by the reference (spine / trafo composed, widths x|m| iff scale_width, offsets x|m| and negated by reflection, end extensions x|m|, label origin / magnification / reflection)',
       bound='leaf with one 2-element robust path (arbitrary prior trafo -2..2, width_scale 1..2, offset_scale -2..2) / one 2-element 2-point flexible path / two labels; concrete distinct tags; filter in {none, first, second, absent}; reference magnification -2..2, both reflections, rotation 0 or free (c,s); no repetitions',
       variants=[dict(KIND=k, FILTER=f, DIRECT=1) for k in (0, 1, 2) for f in (0, 1, 2, 3)] + [dict(KIND=k, FILTER=f, REFL=rf, ROT0=z, SCALEW=w) for k in (0, 1) for (f, rf, z, w) in ((0, 0, 0, 1), (1, 1, 0, 0), (2, 1, 1, 1), (0, 1, 0, 0))]
                + [dict(KIND=2, FILTER=f, REFL=rf, ROT0=z) for (f, rf, z) in ((0, 0, 0), (1, 1, 0), (2, 1, 1))],
       unwind=11, timeout=600, mem_gb=12, real_stub_syms=['cos', 'sin', 'sincos'], nvec=20),
]
BOUNDS = 'two-level hierarchy, one polygon, 2x1 / 1x2 repetitions, free similarity transform'
OUTSIDE = 'paths and labels with repetitions through references (the same four call sites were fixed together; polygons cover the repetition logic); three-level hierarchies; Cell::copy_from / Library::copy_from; floating-point rounding'
ASSUMPTIONS = ['integer-exact model; cos/sin free symbols', 'malloc never fails']
