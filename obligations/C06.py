# C06 — hierarchy queries and flatten (DESIGN.md 3.7)
GP = '_ZNK5gdstk4Cell12get_polygonsEbblbmRNS_5ArrayIPNS_7PolygonEEE'
GO = '_ZNK5gdstk10Repetition11get_offsetsERNS_5ArrayINS_4Vec2EEE'
BASE = dict(APPLY=1, DEPTH=-1, FILTER=0, REFL=0, ROT0=1, EREP=0, RREP=0, FLAT=0)
def V(**kw):
    d = dict(BASE); d.update(kw); return d
OBLIGATIONS = [
    Ob('get_polygons_through_reference', 'C06/get_polys.c', [GP, GO, '_ZN5gdstk4Cell7flattenEbRNS_5ArrayIPNS_9ReferenceEEE'], model='ie', defines={'IE_BITS': 14, 'REAL_TOL': 1}, stubs=['_ZNK5gdstk7Polygon8fractureEmdRNS_5ArrayIPS0_EE'],
       what='Cell::get_polygons(apply_repetitions, depth, filter) on top -> reference -> leaf equals the hand-composed affine image of the leaf polygon under every reference and element repetition offset; repetitions applied or left attached denote the same shapes; depth 0 and a non-matching tag return nothing; copies are fresh',
       bound='1-vertex leaf polygon (transforms act vertex-wise), coordinates -2..2, magnification -2..2, both reflections, rotation 0 or free (c,s), element / reference repetition 2x1 / 1x2 present or not, depth in {-1, 0, 1}, filter in {none, matching, other}',
       variants=[V(), V(REFL=1, ROT0=0), V(EREP=1), V(EREP=1, APPLY=0), V(EREP=1, APPLY=0, REFL=1, ROT0=0), V(RREP=1, ROT0=0), V(RREP=1, EREP=1, APPLY=1, REFL=1, ROT0=0), V(RREP=1, EREP=1, APPLY=0, ROT0=0),
                 V(DEPTH=0), V(DEPTH=1, EREP=1), V(FILTER=1, EREP=1), V(FILTER=2),
                 V(FLAT=1, EREP=1, APPLY=1, REFL=1, ROT0=0), V(FLAT=1, EREP=1, APPLY=0, ROT0=0), V(FLAT=1, RREP=1)],
       unwind=9, timeout=600, mem_gb=12, real_stub_syms=['cos', 'sin', 'sincos'], nvec=20),
]
BOUNDS = 'two-level hierarchy, one polygon, 2x1 / 1x2 repetitions, free similarity transform'
OUTSIDE = 'paths and labels through references (their field-level transforms are C10; the same four call sites were fixed together); three-level hierarchies; Cell::copy_from / Library::copy_from; floating-point rounding'
ASSUMPTIONS = ['integer-exact model; cos/sin free symbols', 'malloc never fails']
