# C01 — GDSII round trip (DESIGN.md 3.9); the same harness carries the writer direction of C03 (strict decoder)
RG = '_ZN5gdstk8read_gdsEPKcddPKNS_3SetImEEPNS_9ErrorCodeE'
WG = '_ZNK5gdstk7Library9write_gdsEPKcmP2tm'
RN = {'exp2': 'my_exp2', 'log2': 'my_log2', 'ceil': 'my_ceil', 'pow': 'my_pow', 'lround': 'my_lround', 'llround': 'my_llround', 'strlen': 'my_strlen1'}
OBLIGATIONS = [
    Ob('write_decode_read_write', 'C01/roundtrip.c', [RG, WG], stubs=['_ZNK5gdstk7Polygon8fractureEmdRNS_5ArrayIPS0_EE'], shrink=[(65537, 96, set())], rename=RN, defines={'WITH_MAG': 0, 'REFL': 0, 'PHASE': 2},
       what='write_gds output passes an independent strict decoder (grammar, even lengths, closed boundary, normalised reals) and decodes to the saved library; read_gds of it returns the same unit, precision, names and element fields; writing the re-loaded library gives a byte-identical file',
       bound='one polygon (3 vertices) / one label (reflection, magnification 1 or 2) / one reference between two cells (reflection, magnification 1 or 0.5); coordinates within +-2^20, 15-bit tags; unit = precision = 1e-9',
       variants=[{'ELEM': 0, 'PHASE': ph} for ph in (1, 2)] + [{'ELEM': e, 'WITH_MAG': m, 'REFL': f, 'PHASE': ph} for e in (1, 2) for (m, f) in ((0, 0), (1, 1), (0, 1)) for ph in (1, 2, 3)],
       unwind=165, timeout=600, mem_gb=14, wrap_files=True, nvec=8, flags=['--max-field-sensitivity-array-size', '450']),
    Ob('write_read_sequences', 'C01/roundtrip.c', [RG, WG], stubs=['_ZNK5gdstk7Polygon8fractureEmdRNS_5ArrayIPS0_EE'], shrink=[(65537, 96, set())], rename=RN, defines={'WITH_MAG': 0, 'REFL': 0, 'PHASE': 2, 'ELEM': 3, 'VF_CAP': 640},
       what='write_gds then read_gds of a library with SEQUENCES of elements: cell A = polygon, label with magnification 2 and reflection, plain label, reference with magnification 0.5 and reflection, plain reference; cell D = one polygon and one label: every element re-loads with its own fields (what one element carries does not leak into the next, in the writer or in the reader)',
       bound='two cells, seven elements; coordinates within +-2^20, 15-bit tags; unit = precision = 1e-9',
       variants=[{}], unwind=45, unwindset=['_ZN5gdstk8read_gdsEPKcddPKNS_3SetImEEPNS_9ErrorCodeE.13:90'], timeout=900, mem_gb=14, wrap_files=True, nvec=8, flags=['--max-field-sensitivity-array-size', '700']),
    Ob('aref_export', 'C03/aref_export.c', ['_ZNK5gdstk9Reference6to_gdsEP8_IO_FILEd'], model='ie', defines={'IE_BITS': 14, 'REAL_TOL': 1},
       stubs=['_ZN5gdstk24is_multiple_of_pi_over_2EdRl', '_ZN5gdstk22gdsii_real_from_doubleEd'], rename={'strlen': 'my_strlen1'},
       what='array lattice of a reference survives export: the AREF written by Reference::to_gds denotes exactly the repetition\'s instance positions (shared with C03)',
       bound='rectangular 2x3 / 3x2 at rotation 0 and 90 degrees; regular lattice with exchanged axes; integer-exact model',
       variants=[dict(KIND=1, COLS=c, ROWS=r, ROT90=z) for (c, r) in ((2, 3), (3, 2)) for z in (0, 1)] + [dict(KIND=2, COLS=2, ROWS=3, ROT90=0)],
       unwind=30, timeout=400, mem_gb=10, wrap_files=True, real_stub_syms=['cos', 'sin', 'sincos'], nvec=10),
]
BOUNDS = 'single-element libraries of 1-2 cells, symbolic coordinates / tags / text, unit = precision'
OUTSIDE = 'scaling != 1 (floating-point rounding of lround(coordinate * unit / precision)); rotations (degree/radian factor inexact); repetitions, paths, properties and AREF export in the direct round trip; max_points fracturing (Clipper); strings longer than one character'
ASSUMPTIONS = ['in-memory FILE model', 'libm contracts (log2 within 1 ulp, pow(16,n)/exp2(n) exact, ceil/lround exact)', 'malloc never fails']
