# C01 — GDSII round trip (DESIGN.md 3.9); the same harness carries the writer direction of C03 (strict decoder)
RG = '_ZN5gdstk8read_gdsEPKcddPKNS_3SetImEEPNS_9ErrorCodeE'
WG = '_ZNK5gdstk7Library9write_gdsEPKcmP2tm'
RN = {'exp2': 'my_exp2', 'log2': 'my_log2', 'ceil': 'my_ceil', 'pow': 'my_pow', 'lround': 'my_lround', 'llround': 'my_llround', 'strlen': 'my_strlen1'}
OBLIGATIONS = [
    Ob('write_decode_read_write', 'C01/roundtrip.c', [RG, WG], stubs=['_ZNK5gdstk7Polygon8fractureEmdRNS_5ArrayIPS0_EE'], shrink=[(65537, 96, set())], rename=RN, defines={'WITH_MAG': 0, 'REFL': 0, 'PHASE': 2},
       what='write_gds output passes an independent strict decoder (grammar, even lengths, closed boundary, normalised reals) and decodes to the saved library; read_gds of it returns the same unit, precision, names and element fields; writing the re-loaded library gives a byte-identical file',
       bound='one polygon (3 vertices) / one label (reflection, magnification 1 or 2) / one reference between two cells (reflection, magnification 1 or 0.5); coordinates within +-2^20, 15-bit tags; unit = precision = 1e-9',
       variants=[{'ELEM': 0, 'PHASE': ph} for ph in (1, 2)] + [{'ELEM': e, 'WITH_MAG': m, 'REFL': f, 'PHASE': ph} for e in (1, 2) for (m, f) in ((0, 0), (1, 1), (0, 1)) for ph in (1, 2, 3)],
       unwind=165, timeout=600, mem_gb=14, wrap_files=True, nvec=8, flags=['--max-field-sensitivity-array-size', '450']),
]
BOUNDS = 'single-element libraries of 1-2 cells, symbolic coordinates / tags / text, unit = precision'
OUTSIDE = 'scaling != 1 (floating-point rounding of lround(coordinate * unit / precision)); rotations (degree/radian factor inexact); repetitions, paths, properties and AREF export in the direct round trip; max_points fracturing (Clipper); strings longer than one character'
ASSUMPTIONS = ['in-memory FILE model', 'libm contracts (log2 within 1 ulp, pow(16,n)/exp2(n) exact, ceil/lround exact)', 'malloc never fails']
