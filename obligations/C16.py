# C16 — library edits (DESIGN.md 3.8)
L = '_ZN5gdstk7Library'
HASH = '_ZN5gdstk4hashEPKc'
AMAP = ['_ZN5gdstk3MapIPNS_4CellEE3setEPKcS2_', '_ZNK5gdstk3MapIPNS_4CellEE3getEPKc', '_ZN5gdstk3MapIPNS_4CellEE6resizeEm', '_ZN5gdstk3MapIPNS_4CellEE5clearEv',
        '_ZN5gdstk3MapIPNS_7RawCellEE3setEPKcS2_', '_ZNK5gdstk3MapIPNS_7RawCellEE3getEPKc', '_ZN5gdstk3MapIPNS_7RawCellEE6resizeEm', '_ZN5gdstk3MapIPNS_7RawCellEE5clearEv']
OBLIGATIONS = [
    Ob('replace_and_rename', 'C16/lib.c', [L + '12replace_cellEPNS_4CellES2_', L + '12replace_cellEPNS_4CellEPNS_7RawCellE', L + '11rename_cellEPNS_4CellEPKc'], ir='ni', stubs=['_ZN5gdstk11copy_stringEPKcPm'] + AMAP, rename={'strlen': 'my_strlen1'},
       defines={'ACYCLIC': 0, 'RAWREFS': 0, 'RECURSIVE': 0, 'OI': 0},
       what='Library::replace_cell (cell->cell, cell->raw cell) and rename_cell: every reference designates the intended cell afterwards (pointer, raw or by name), untouched references are bit-identical, list membership updated; replace_cell(cell -> raw cell) for a cell object that is not in the library still redirects the references to it and leaves the lists alone',
       bound='library of 2 cells x 2 references of symbolic kind (pointer to any of 4 cells / by name over 5 letters / raw cell), symbolic names incl. clashes between library and outside cells',
       variants=[{'OP': o, 'RAWREFS': r, 'OI': k} for o in (0, 4) for r in (0, 1) for k in (0, 1)] + [{'OP': 4, 'RAWREFS': r, 'OI': 2} for r in (0, 1)] + [{'OP': 1}], unwind=8, timeout=300),
    Ob('top_level_and_dependencies', 'C16/lib.c', ['_ZNK5gdstk7Library9top_levelERNS_5ArrayIPNS_4CellEEERNS1_IPNS_7RawCellEEE', '_ZNK5gdstk4Cell16get_dependenciesEbRNS_3MapIPS0_EE', '_ZNK5gdstk7RawCell16get_dependenciesEbRNS_3MapIPS0_EE'], ir='ni', stubs=['_ZN5gdstk11copy_stringEPKcPm'] + AMAP, rename={'strlen': 'my_strlen1'},
       defines={'ACYCLIC': 0, 'RAWREFS': 0, 'RECURSIVE': 0, 'OI': 0},
       what='Library::top_level == library cells referenced by no library cell; Cell::get_dependencies == direct / transitive set of referenced cells (Map<Cell*> / Map<RawCell*> by their abstract model, which C20 proves the template against)',
       bound='same library shape; for the recursive query six concrete acyclic graph shapes (chains, shared sub-cell, by-name mix) with symbolic names',
       variants=[{'OP': 2, 'RAWREFS': r} for r in (0, 1)] + [{'OP': 3, 'RECURSIVE': 0}] + [{'OP': 3, 'RECURSIVE': 1, 'ACYCLIC': 1, 'GRAPH': g} for g in (1223, 1133, 1424, 2323, 4422, 1343)], unwind=9, timeout=400, mem_gb=10,
       flags=['--unwindset', '_ZNK5gdstk4Cell16get_dependenciesEbRNS_3MapIPS0_EE.recursion:4']),
]
BOUNDS = 'libraries of 2 cells + 2 outside cells + 1 raw cell, 2 references per cell'
OUTSIDE = 'larger libraries in one query (one inductive step from an arbitrary state covers histories); remap_tags / tag queries; Library::copy_from'
ASSUMPTIONS = ['Map<Cell*> and Map<RawCell*> replaced by an abstract association list in the graph queries (C20 proves Map<T> against that model)', 'strlen / copy_string by contract for the 1-character strings of the harness', 'cell names are 1 character', 'malloc never fails']
