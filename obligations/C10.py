# C10 — element transforms (DESIGN.md 3.5)
PP = '_ZN5gdstk7Polygon'
OBLIGATIONS = [
    Ob('polygon_maps', 'C10/poly.c', [PP + '9translateENS_4Vec2E', PP + '5scaleENS_4Vec2ES1_', PP + '6rotateEdNS_4Vec2E', PP + '9transformEdbdNS_4Vec2E', PP + '6mirrorENS_4Vec2ES1_'],
       model='ie', defines={'REAL_TOL': 1, 'IE_BITS': 14, 'REFL': 0, 'ROT0': 0, 'QUARTER_TURN_CONTRACT': 1}, stubs=['_ZN5gdstk24is_multiple_of_pi_over_2EdRl'],
       what='Polygon::translate/scale/rotate/transform/mirror: every vertex image equals the documented affine map (cos/sin free symbols; additionally every exact quarter turn -4..4 with its exact cosine/sine, should the code special-case multiples of pi/2)',
       bound='2 vertices, coordinates / centres / factors in -3..3, magnification -3..3, (c,s) in -2..2; mirror lines axis-parallel or diagonal through any point',
       variants=[{'OP': 0}, {'OP': 1}, {'OP': 2}, {'OP': 4}] + [{'OP': 3, 'REFL': f, 'ROT0': z} for f in (0, 1) for z in (0, 1, 2)] + [{'OP': 2, 'ROT0': 2}], unwind=11, timeout=300, real_stub_syms=['cos', 'sin', 'sincos'], nvec=40),
    Ob('label_reference_placement', 'C10/placement.c', ['_ZN5gdstk5Label9transformEdbdNS_4Vec2E', '_ZN5gdstk9Reference9transformEdbdNS_4Vec2E'],
       model='ie', defines={'REAL_TOL': 1, 'IE_BITS': 14},
       what='Label::transform / Reference::transform: origin mapped, rotation sign-flipped under reflection and added, magnifications multiplied, reflection xor',
       bound='origin / translation in -3..3, integer rotations and magnifications -3..3, both prior reflection states',
       variants=[{'KIND': k, 'REFL': f, 'ROT0': z} for k in (0, 1) for f in (0, 1) for z in (0, 1)], unwind=4, timeout=300, real_stub_syms=['cos', 'sin', 'sincos'], nvec=40),
    Ob('flexpath_maps', 'C10/flexpath.c', ['_ZN5gdstk8FlexPath9translateENS_4Vec2E', '_ZN5gdstk8FlexPath5scaleEdNS_4Vec2E', '_ZN5gdstk8FlexPath6rotateEdNS_4Vec2E', '_ZN5gdstk8FlexPath9transformEdbdNS_4Vec2E', '_ZN5gdstk8FlexPath6mirrorENS_4Vec2ES1_'],
       model='ie', defines={'REAL_TOL': 1, 'IE_BITS': 14, 'REFL': 0, 'ROT0': 0, 'SCALEW': 1},
       what='FlexPath::translate/scale/rotate/transform/mirror: spine mapped by the affine map; widths x|f| iff scale_width; offsets x|f| and negated under reflection; end extensions x|f|',
       bound='2 spine points, 2 elements, coordinates -3..3, half-widths 0..3, offsets -3..3, factors / magnifications -3..3 (negative included), both scale_width states',
       variants=[{'OP': 0}, {'OP': 2}, {'OP': 4}] + [{'OP': 1, 'SCALEW': w} for w in (0, 1)] + [{'OP': 3, 'REFL': f, 'ROT0': z, 'SCALEW': w} for f in (0, 1) for z in (0, 1) for w in (0, 1)],
       unwind=6, timeout=300, real_stub_syms=['cos', 'sin', 'sincos'], nvec=40),
    Ob('robustpath_algebra', 'C10/robust.c', ['_ZN5gdstk10RobustPath9translateENS_4Vec2E', '_ZN5gdstk10RobustPath12simple_scaleEd', '_ZN5gdstk10RobustPath5scaleEdNS_4Vec2E', '_ZN5gdstk10RobustPath13simple_rotateEd',
        '_ZN5gdstk10RobustPath6rotateEdNS_4Vec2E', '_ZN5gdstk10RobustPath12x_reflectionEv', '_ZN5gdstk10RobustPath9transformEdbdNS_4Vec2E'],
       model='ie', defines={'REAL_TOL': 1, 'IE_BITS': 14, 'REFL': 0, 'ROT0': 0, 'SCALEW': 1},
       what='RobustPath transform algebra from an arbitrary prior trafo: resulting trafo, width_scale, offset_scale, end extensions equal the composition',
       bound='prior trafo entries -2..2, factors -3..3, centres -2..2, (c,s) in -2..2; both scale_width states for the scaling operations',
       variants=[{'OP': 0}, {'OP': 3}, {'OP': 4}, {'OP': 5}] + [{'OP': o, 'SCALEW': w} for o in (1, 2) for w in (0, 1)] + [{'OP': 6, 'REFL': f, 'ROT0': z, 'SCALEW': w} for f in (0, 1) for z in (0, 1) for w in (0, 1)],
       unwind=8, timeout=300, real_stub_syms=['cos', 'sin', 'sincos'], nvec=40),
]
BOUNDS = 'elements with 2 vertices / spine points, 2 path elements, integer parameters in -3..3, cos/sin free symbols in -2..2'
OUTSIDE = 'transform-then-outline == outline-then-transform for paths (needs the outliners, C07/C08); floating-point rounding; mirror lines other than axis-parallel/diagonal; RobustPath::mirror (normalises the direction with a square root)'
ASSUMPTIONS = ['integer-exact model (range assertions in every query)', 'cos/sin are free integer symbols: the checked laws are polynomial identities, so a bounded grid establishes them for every rotation in exact arithmetic (floating-point rounding is outside)']
