# C14 — point-in-polygon and measures (DESIGN.md 3.2)
P = '_ZNK5gdstk7Polygon'
OBLIGATIONS = [
    Ob('contain_vs_winding', 'C14/contain.c', [P + '7containENS_4Vec2E'], model='ie', defines={'IE_T': 'int16_t', 'IE_WIDE': 'int32_t', 'IE_BITS': 14},
       what='Polygon::contain equals the exact winding-number / on-boundary oracle',
       bound='N = 0..3 vertices on the even grid -4..4, query points on the integer grid -5..5 (half-integer in unscaled units); arithmetic proved exact (range assertions)',
       variants=[{'N': n} for n in (0, 1, 2, 3)], unwind=6, timeout=400, mem_gb=8),
    Ob('group_queries', 'C14/group.c', ['_ZN5gdstk6insideERKNS_5ArrayINS_4Vec2EEERKNS0_IPNS_7PolygonEEEPb', '_ZN5gdstk10all_insideERKNS_5ArrayINS_4Vec2EEERKNS0_IPNS_7PolygonEEE',
        '_ZN5gdstk10any_insideERKNS_5ArrayINS_4Vec2EEERKNS0_IPNS_7PolygonEEE', P + '11contain_allERKNS_5ArrayINS_4Vec2EEE', P + '11contain_anyERKNS_5ArrayINS_4Vec2EEE'],
       stubs=[P + '7containENS_4Vec2E'], ir='ni', model='ie', retry_defines=['-DT_ORACLE'],
       what='inside / all_inside / any_inside / contain_all / contain_any equal OR / AND-of-OR / OR / AND / OR of Polygon::contain, for an arbitrary contain satisfying the bounding-box lemma',
       bound='NP x NQ in {0,1,2} x {0,1,2} polygons x points (empty groups included), triangles with coordinates -3..3, points -4..4',
       variants=[{'OP': o, 'NP': a, 'NQ': b} for o in range(4) for a in (0, 1, 2) for b in (0, 1, 2) if not (o == 3 and a == 0)], unwind=6, timeout=300),
    Ob('area_perimeter', 'C14/measure.c', [P + '11signed_areaEv', P + '4areaEv', P + '9perimeterEv'], stubs=['_ZNK5gdstk4Vec26lengthEv'], ir='ni', model='ie', defines={'IE_BITS': 14},
       what='signed_area == shoelace sum, area == its magnitude x repetition count, perimeter == closed sum of Vec2::length over the edges x count; all zero below three vertices',
       bound='N = 0..3 vertices (perimeter also 4) on the even grid -6..6, without repetition and with a rectangular 2 x 3 repetition; Vec2::length an arbitrary function',
       variants=[{'OP': o, 'N': n, 'REP': r} for o in (0, 1) for n in (0, 2, 3) for r in (0, 1)] + [{'OP': 1, 'N': 4, 'REP': 1}], unwind=8, timeout=300),
    Ob('contain_vs_winding_N4', 'C14/contain.c', [P + '7containENS_4Vec2E'], model='ie', defines={'IE_T': 'int16_t', 'IE_WIDE': 'int32_t', 'IE_BITS': 14, 'R': 3},
       what='Polygon::contain vs winding oracle for quadrilaterals (bow-ties, repeated vertices, horizontal edges through the query ordinate)',
       bound='N = 4 vertices on the even grid -6..6, query points -7..7', variants=[{'N': 4}], unwind=7, timeout=3000, mem_gb=12, tier='thorough'),
    Ob('area_N4', 'C14/measure.c', [P + '11signed_areaEv', P + '4areaEv', P + '9perimeterEv'], stubs=['_ZNK5gdstk4Vec26lengthEv'], ir='ni', model='ie', defines={'IE_BITS': 14},
       what='signed_area / area for quadrilaterals', bound='N = 4 on the even grid -6..6', variants=[{'OP': 0, 'N': 4, 'REP': r} for r in (0, 1)], unwind=8, timeout=3000, tier='thorough'),
]
BOUNDS = 'contain: N <= 3 quick / 4 thorough, even grid +-4 (+-6), integer query points; group queries <= 2 polygons x <= 2 points; measures N <= 3 (4 thorough)'
OUTSIDE = 'coordinates not exactly representable on the grid (floating-point rounding of the cross product); N > 4; perimeter square roots (Vec2::length abstracted); explicit / regular repetition kinds in the count factor (C11 decides get_count)'
ASSUMPTIONS = ['IEEE-754 lemma: +,-,* on integer-valued doubles whose exact result is an integer below 2^53 are exact (every operation range-asserted in the query)']
