# C17 — partial and alternative readers (DESIGN.md 3.11)
RG = '_ZN5gdstk8read_gdsEPKcddPKNS_3SetImEEPNS_9ErrorCodeE'
ROOTS = [RG, '_ZN5gdstk9gds_unitsEPKcRdS2_', '_ZN5gdstk8gds_infoEPKcRNS_11LibraryInfoE', '_ZN5gdstk13gds_timestampEPKcPK2tmPNS_9ErrorCodeE']
OBLIGATIONS = [
    Ob('partial_readers_agree', 'C17/partial.c', ROOTS, ir='ni', stubs=['_ZN5gdstk4hashImEEmT_'], shrink=[(65537, 96, set())], rename={'exp2': 'my_exp2'},
       what='on one spec-encoded file with symbolic field values: gds_units, gds_info (names, counts, tag sets, units) and gds_timestamp(read) equal what read_gds yields; read_gds with a 1-element tag filter == load all and drop other shapes (labels kept)',
       bound='file: one cell with a 3-vertex BOUNDARY and a TEXT; coordinates +-2^16, 15-bit layers/types, UNITS 1e-3/1e-9, arbitrary time stamps; hash<Tag> arbitrary',
       variants=[{'OP': k} for k in range(4)], unwind=45, timeout=600, mem_gb=12, wrap_files=True, nvec=6, flags=['--max-field-sensitivity-array-size', '400']),
    Ob('timestamp_write', 'C17/partial.c', ['_ZN5gdstk13gds_timestampEPKcPK2tmPNS_9ErrorCodeE'], ir='ni', shrink=[(65537, 96, set())],
       what='gds_timestamp in write mode on a spec-encoded file skeleton: returns the previous library time stamp, leaves the file length alone, puts the new time into both 12-byte halves of the BGNLIB and of every BGNSTR record and changes no other byte',
       bound='file: HEADER, BGNLIB, LIBNAME, UNITS, BGNSTR, STRNAME, ENDSTR, ENDLIB (102 bytes); old and new time stamps arbitrary (also equal ones)',
       variants=[{'OP': 4}], unwind=120, timeout=600, mem_gb=12, wrap_files=True, nvec=6, flags=['--max-field-sensitivity-array-size', '400']),
]
BOUNDS = 'one two-element cell, every field value symbolic; time-stamp rewrite on the element-free skeleton of the same file'
OUTSIDE = 'raw-cell copying (read_rawcells + RawCell::to_gds: the harness harness/C17/rawcopy.c exists, the query ran 600 s without verdict in symbolic execution and is not part of the check), GdsWriter; non-power-of-two unit ratios beyond the 1e-3 example; files with several cells'
ASSUMPTIONS = ['in-memory FILE model', 'exp2 contract', 'hash<Tag> an arbitrary function']
