# C20 — containers, property lists, sorting (DESIGN.md 3.3)
HASH = '_ZN5gdstk4hashEPKc'
HASHT = '_ZN5gdstk4hashImEEmT_'
COPYSTR = '_ZN5gdstk11copy_stringEPKcPm'
MAPW = ['w_map_set', 'w_map_get', 'w_map_has_key', 'w_map_del', 'w_map_resize', 'w_map_clear', 'w_map_copy_from', 'w_map_next', 'w_map_to_array']
OPS = {0: 'set', 1: 'get_has', 2: 'del', 3: 'next', 4: 'to_array', 5: 'clear', 6: 'copy_from', 7: 'resize', 8: 'set_with_growth'}
OBLIGATIONS = [
    Ob('map_step', 'C20/map.c', MAPW, stubs=[HASH, COPYSTR], ir='ni',
       what='Map<uint64_t>: one set/get/has_key/del/next/to_array/clear/resize from an arbitrary valid table equals the abstract map, invariant re-established, other keys untouched',
       bound='capacity 4, every slot pattern / key / value, hash an arbitrary function; 1-character keys',
       variants=[{'OP': k} for k in (0, 1, 2, 3, 4, 5, 7)], unwind=10, timeout=400, mem_gb=10, retry_defines=['-DREAL_HASH'],
       callrename={'_ZN5gdstk3MapImE3setEPKcm': {'_ZN5gdstk3MapImE6resizeEm': 'map_resize_from_set'}}),
    Ob('map_set_with_growth', 'C20/map.c', MAPW, stubs=[HASH, COPYSTR], ir='ni',
       what='Map<uint64_t>::set at the load threshold grows once (resize by the contract proved in map_step OP 7) and then inserts correctly',
       bound='capacity 4 -> 8', variants=[{'OP': 8}], unwind=10, timeout=400, mem_gb=10, real=False,
       callrename={'_ZN5gdstk3MapImE3setEPKcm': {'_ZN5gdstk3MapImE6resizeEm': 'map_resize_from_set'}}),
    Ob('map_copy_from', 'C20/map.c', MAPW, stubs=[HASH, COPYSTR], ir='ni',
       what='Map<uint64_t>::copy_from gives a valid deep copy with the same content and never grows', bound='capacity 4, occupancy patterns {none, slot0, slots 0+2, slots 1+3}, keys/values/hash symbolic',
       variants=[{'OP': 6, 'OCC': m} for m in (0, 1, 5, 10)], unwind=10, timeout=900, mem_gb=12, real=False, tier='thorough',
       callrename={'_ZN5gdstk3MapImE3setEPKcm': {'_ZN5gdstk3MapImE6resizeEm': 'map_resize_from_set'}}),
    Ob('set_step', 'C20/tagtab.c', ['w_set_add', 'w_set_has', 'w_set_del', 'w_set_next'], stubs=[HASHT], ir='ni', defines={'KIND': 0},
       what='Set<Tag>: one add / has_value / del / next-iteration from an arbitrary valid table equals the abstract set',
       bound='capacity 4, tags from a universe of 8 distinct values (symbolic high 61 bits), arbitrary hash',
       variants=[{'OP': k} for k in range(4)], unwind=10, timeout=400, mem_gb=10, real=False,
       callrename={'_ZN5gdstk3SetImE3addEm': {'_ZN5gdstk3SetImE6resizeEm': 'tab_resize_from_add'}}),
    Ob('tagmap_step', 'C20/tagtab.c', ['w_tagmap_set', 'w_tagmap_get', 'w_tagmap_has_key', 'w_tagmap_del', 'w_tagmap_next'], stubs=[HASHT], ir='ni', defines={'KIND': 1},
       what='TagMap (empty slot = key equals value): one set / get / has_key / del (also via set(k,k)) / next from an arbitrary valid table equals the abstract map with identity default',
       bound='capacity 4, tags from a universe of 8 distinct values (symbolic high 61 bits), stale key==value contents in empty slots, arbitrary hash',
       variants=[{'OP': k} for k in range(4)], unwind=10, timeout=400, mem_gb=10, real=False,
       callrename={'_ZN5gdstk6TagMap3setEmm': {'_ZN5gdstk6TagMap6resizeEm': 'tab_resize_from_add'}}),
    Ob('stylemap_step', 'C20/tagtab.c', ['w_style_set', 'w_style_get', 'w_style_del', 'w_style_next'], stubs=[HASHT, COPYSTR], ir='ni', defines={'KIND': 2},
       what='StyleMap (owned strings): one set / get / del / next from an arbitrary valid table equals the abstract map; strings are private copies, freed exactly once',
       bound='capacity 4, tags from a universe of 8 distinct values (symbolic high 61 bits), 1-character strings, arbitrary hash',
       variants=[{'OP': k} for k in range(4)], unwind=10, timeout=400, mem_gb=10, real=False,
       callrename={'_ZN5gdstk8StyleMap3setEmPKc': {'_ZN5gdstk8StyleMap6resizeEm': 'tab_resize_from_add'}}),
    Ob('property_list_step', 'C20/props.c', ['w_prop_remove', 'w_prop_get', 'w_prop_set_u64', 'w_prop_copy', 'w_prop_clear'],
       what='property lists: remove_property (first / all), get_property, set_property (create_new both ways), properties_copy + properties_clear on an arbitrary list equal the ordered-multimap model',
       bound='lists of 0..3 properties, names 1 character from {a,b,c} (all equality patterns), one unsigned value each',
       variants=[{'OP': o, 'LEN': n} for o in range(4) for n in range(4)], unwind=6, timeout=200),
    Ob('sort_small', 'C20/sort.c', ['w_insertion_sort', 'w_heap_sort', 'w_sort', 'w_partition', 'w_sort_default'], ir='ni',
       what='insertion_sort, heap_sort (sift_down/leaf_search), sort() and partition on every array of N elements under any ordering on 8 key values: ordered permutation; partition point strictly inside with left <= right',
       bound='N = 0..6 (partition 3..6), keys -4..3 (all tie patterns), unique ids',
       variants=[{'ALG': a, 'N': n} for a in (0, 1, 2, 4) for n in (0, 1, 2, 3, 5, 6)] + [{'ALG': 3, 'N': n} for n in (3, 4, 5, 6)], unwind=9, timeout=300, mem_gb=8),
    Ob('array_step', 'C20/array.c', ['w_arr_append', 'w_arr_insert', 'w_arr_remove', 'w_arr_remove_unordered', 'w_arr_remove_item', 'w_arr_index', 'w_arr_contains', 'w_arr_extend', 'w_arr_copy_from', 'w_arr_ensure_slots', 'w_arr_clear'],
       what='Array<int64_t>: append / insert / remove / remove_unordered / index / contains / remove_item / copy_from / extend / ensure_slots / clear equal the C-array model',
       bound='arrays of 0..3 elements (values -2..2), capacity equal to count (forces growth) or 4',
       variants=[{'OP': o, 'CNT': c, 'CAPA': k} for o in range(6) for (c, k) in ((0, 0), (1, 1), (3, 3), (3, 4), (2, 4)) if not (o in (2, 3, 5) and c == 0)], unwind=9, timeout=200),
]
BOUNDS = 'hash tables: capacity 4 (one inductive step from every valid table; growth as its own step by contract), property lists 0..3 entries, sorting kernels N <= 6, arrays <= 3 elements'
OUTSIDE = 'tables larger than capacity 4 in one query (covered by induction over the invariant only); multi-character keys; intro_sort regimes above 16 elements (thorough tier, by contract); Array::extend/copy_from with an empty NULL source calls memcpy(NULL, NULL, 0) - flagged by CBMC and UBSan nonnull checks, harmless, not part of the property; Set/TagMap/StyleMap copy_from/resize/to_array'
ASSUMPTIONS = ['malloc never fails', 'hash functions replaced by arbitrary functions (a proof for every hash function covers FNV-1a)']
