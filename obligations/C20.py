# C20 — containers, property lists, sorting (DESIGN.md 3.3)
HASH = '_ZN5gdstk4hashEPKc'
HASHT = '_ZN5gdstk4hashImEEmT_'
COPYSTR = '_ZN5gdstk11copy_stringEPKcPm'
MAPW = ['w_map_set', 'w_map_get', 'w_map_has_key', 'w_map_del', 'w_map_resize', 'w_map_clear', 'w_map_copy_from', 'w_map_next', 'w_map_to_array']
OPS = {0: 'set', 1: 'get_has', 2: 'del', 3: 'next', 4: 'to_array', 5: 'clear', 6: 'copy_from', 7: 'resize', 8: 'set_with_growth'}
OBLIGATIONS = [
    Ob('map_step', 'C20/map.c', MAPW, stubs=[HASH, COPYSTR], ir='ni',
       what='Map<uint64_t>: one set/get/has_key/del/next/to_array/clear/copy_from/resize from an arbitrary valid table equals the abstract map, invariant re-established, other keys untouched',
       bound='capacity 4, every slot pattern / key / value, hash an arbitrary function; 1-character keys',
       variants=[{'OP': k} for k in range(9) if k != 6], unwind=10, timeout=400, mem_gb=10, real=False,
       callrename={'_ZN5gdstk3MapImE3setEPKcm': {'_ZN5gdstk3MapImE6resizeEm': 'map_resize_from_set'}}),
    Ob('map_copy_from', 'C20/map.c', MAPW, stubs=[HASH, COPYSTR], ir='ni',
       what='Map<uint64_t>::copy_from gives a valid deep copy with the same content and never grows', bound='capacity 4, occupancy patterns {none, slot0, slots 0+2, slots 1+3}, keys/values/hash symbolic',
       variants=[{'OP': 6, 'OCC': m} for m in (0, 1, 5, 10)], unwind=10, timeout=900, mem_gb=12, real=False, tier='thorough',
       callrename={'_ZN5gdstk3MapImE3setEPKcm': {'_ZN5gdstk3MapImE6resizeEm': 'map_resize_from_set'}}),
    Ob('set_step', 'C20/tagtab.c', ['w_set_add', 'w_set_has', 'w_set_del', 'w_set_next'], stubs=[HASHT], ir='ni', defines={'KIND': 0},
       what='Set<Tag>: one add / has_value / del / next-iteration from an arbitrary valid table equals the abstract set',
       bound='capacity 4, tags from a universe of 8 distinct values (symbolic high 61 bits), arbitrary hash',
       variants=[{'OP': k} for k in range(4)], unwind=10, timeout=400, mem_gb=10, real=False,
       callrename={'_ZN5gdstk3SetImE3addEm': {'_ZN5gdstk3SetImE6resizeEm': 'tab_resize_from_add'}}),
    Ob('tagmap_step', 'C20/tagtab.c', ['w_tagmap_set', 'w_tagmap_get', 'w_tagmap_has_key', 'w_tagmap_del', 'w_tagmap_next'], stubs=[HASHT], ir='ni', defines={'KIND': 1},
       what='TagMap (empty slot = key equals value): one set / get / has_key / del (also via set(k,k)) / next from an arbitrary valid table equals the abstract map with identity default',
       bound='capacity 4, tags from a universe of 8 distinct values (symbolic high 61 bits), stale key==value contents in empty slots, arbitrary hash',
       variants=[{'OP': k} for k in range(4)], unwind=10, timeout=400, mem_gb=10, real=False,
       callrename={'_ZN5gdstk6TagMap3setEmm': {'_ZN5gdstk6TagMap6resizeEm': 'tab_resize_from_add'}}),
    Ob('stylemap_step', 'C20/tagtab.c', ['w_style_set', 'w_style_get', 'w_style_del', 'w_style_next'], stubs=[HASHT, COPYSTR], ir='ni', defines={'KIND': 2},
       what='StyleMap (owned strings): one set / get / del / next from an arbitrary valid table equals the abstract map; strings are private copies, freed exactly once',
       bound='capacity 4, tags from a universe of 8 distinct values (symbolic high 61 bits), 1-character strings, arbitrary hash',
       variants=[{'OP': k} for k in range(4)], unwind=10, timeout=400, mem_gb=10, real=False,
       callrename={'_ZN5gdstk8StyleMap3setEmPKc': {'_ZN5gdstk8StyleMap6resizeEm': 'tab_resize_from_add'}}),
]
BOUNDS = ''
OUTSIDE = ''
ASSUMPTIONS = ['malloc never fails', 'hash functions replaced by arbitrary functions (a proof for every hash function covers FNV-1a)']
