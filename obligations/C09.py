# C09 — bounding boxes and hulls (DESIGN.md 3.6)
SHAPES = [dict(KIND=0, A=0, B=0)] + [dict(KIND=k, A=a, B=b) for (k, a, b) in ((1, 2, 3), (1, 1, 1), (1, 0, 2), (2, 2, 2), (2, 3, 1), (3, 3, 0), (3, 0, 0), (4, 2, 0), (5, 3, 0))]
OBLIGATIONS = [
    Ob('element_bounding_box', 'C09/bbox_elem.c', ['_ZNK5gdstk7Polygon12bounding_boxERNS_4Vec2ES2_', '_ZNK5gdstk5Label12bounding_boxERNS_4Vec2ES2_'], model='ie',
       what='Polygon::bounding_box / Label::bounding_box == min/max over all vertices x ALL repetition offsets; empty polygon gives the inverted box',
       bound='polygons of 0 and 2 vertices, one label; every repetition kind (shapes up to 2x3 / 3 entries); coordinates and vectors in -3..3',
       variants=[dict(ELEM=e, NV=nv, **s) for (e, nv) in ((0, 2), (0, 0), (1, 1)) for s in SHAPES], unwind=12, timeout=200, nvec=25),
    Ob('reference_bounding_box', 'C09/bbox_ref.c', ['_ZNK5gdstk9Reference12bounding_boxERNS_4Vec2ES2_RNS_3MapINS_12GeometryInfoEEE', '_ZNK5gdstk9Reference12bounding_boxERNS_4Vec2ES2_', '_ZNK5gdstk4Cell12bounding_boxERNS_3MapINS_12GeometryInfoEEE'],
       stubs=['_ZN5gdstk11convex_hullENS_5ArrayINS_4Vec2EEERS2_', '_ZN5gdstk24is_multiple_of_pi_over_2EdRl'], model='ie', defines={'REAL_TOL': 1, 'IE_BITS': 14, 'OP': 0, 'PRE': 0},
       what='Reference::bounding_box (two-level hierarchy, real Map<GeometryInfo> cache) == min/max over the magnified, reflected, rotated, translated and fully repeated child geometry',
       bound='child: 2-vertex polygon + label, coordinates -2..2; magnification -2..2, both reflections, rotation 0 (corner shortcut) or arbitrary with free cos/sin (hull branch, qhull = identity hull); reference without repetition (repetition x reference is covered at element level and by C11 extrema)',
       variants=[dict(REFL=f, ROT0=z, KIND=0, A=0, B=0) for f in (0, 1) for z in (0, 1)] + [dict(REFL=0, ROT0=0, KIND=0, A=0, B=0, PRE=1)],
       unwind=7, timeout=500, mem_gb=10, real_stub_syms=['cos', 'sin', 'sincos'], nvec=25),
    Ob('bounding_box_cache_agreement', 'C09/bbox_ref.c', ['_ZNK5gdstk9Reference12bounding_boxERNS_4Vec2ES2_RNS_3MapINS_12GeometryInfoEEE', '_ZNK5gdstk9Reference12bounding_boxERNS_4Vec2ES2_', '_ZNK5gdstk4Cell12bounding_boxERNS_3MapINS_12GeometryInfoEEE'],
       stubs=['_ZN5gdstk11convex_hullENS_5ArrayINS_4Vec2EEERS2_', '_ZN5gdstk24is_multiple_of_pi_over_2EdRl'], model='ie', defines={'REAL_TOL': 1, 'IE_BITS': 14, 'OP': 1, 'PRE': 0},
       what='a second query through the filled cache and the cache-free entry point return the same box as the first query',
       bound='same hierarchy; rotation 0 and free rotation, no repetition',
       variants=[dict(REFL=1, ROT0=0, KIND=0, A=0, B=0)],
       unwind=10, timeout=600, mem_gb=12, real_stub_syms=['cos', 'sin', 'sincos'], nvec=25),
    Ob('bounding_box_cache_agreement_rot0', 'C09/bbox_ref.c', ['_ZNK5gdstk9Reference12bounding_boxERNS_4Vec2ES2_RNS_3MapINS_12GeometryInfoEEE', '_ZNK5gdstk9Reference12bounding_boxERNS_4Vec2ES2_', '_ZNK5gdstk4Cell12bounding_boxERNS_3MapINS_12GeometryInfoEEE'],
       stubs=['_ZN5gdstk11convex_hullENS_5ArrayINS_4Vec2EEERS2_', '_ZN5gdstk24is_multiple_of_pi_over_2EdRl'], model='ie', defines={'REAL_TOL': 1, 'IE_BITS': 14, 'OP': 1, 'PRE': 0},
       what='cache agreement on the corner-shortcut branch', bound='rotation 0, no repetition', variants=[dict(REFL=0, ROT0=1, KIND=0, A=0, B=0)],
       unwind=10, timeout=1500, mem_gb=14, nvec=25, tier='thorough'),
    Ob('reference_hull_points', 'C09/hull_rep.c', ['_ZNK5gdstk9Reference20repeat_and_transformERNS_5ArrayINS_4Vec2EEE'], model='ie', defines={'REAL_TOL': 1, 'IE_BITS': 14},
       what='Reference::repeat_and_transform (input of Reference::convex_hull and of the rotated bounding box): its points reach exactly as far, in the 8 axis/diagonal directions, as the transformed child points under ALL repetition offsets',
       bound='1 child point in -2..2 (the map acts pointwise), magnification -2..2, reflected, rotation 0 or free (c,s); reference repetition rectangular 2x2, explicit 3 entries (+ regular 2x2 unreflected); vectors in -2..2',
       variants=[dict(REFL=1, ROT0=z, **s) for z in (0, 1) for s in (dict(KIND=1, A=2, B=2), dict(KIND=3, A=3, B=0))] + [dict(REFL=0, ROT0=1, KIND=2, A=2, B=2)],
       unwind=9, timeout=600, mem_gb=10, real_stub_syms=['cos', 'sin', 'sincos'], nvec=25),
    Ob('reference_hull_points_all', 'C09/hull_rep.c', ['_ZNK5gdstk9Reference20repeat_and_transformERNS_5ArrayINS_4Vec2EEE'], model='ie', defines={'REAL_TOL': 1, 'IE_BITS': 14},
       what='same obligation over all reflection / rotation / kind combinations and with 2 child points',
       bound='rectangular 2x2, regular 2x2, explicit 3; both reflections; rotation 0 and free; NPT 1 and 2',
       variants=[dict(REFL=f, ROT0=z, NPT=n, **s) for f in (0, 1) for z in (0, 1) for n in (1, 2) for s in (dict(KIND=1, A=2, B=2), dict(KIND=2, A=2, B=2), dict(KIND=3, A=3, B=0))],
       unwind=17, timeout=3000, mem_gb=12, real_stub_syms=['cos', 'sin', 'sincos'], nvec=25, tier='thorough'),
]
BOUNDS = 'elements: every repetition kind up to 2x3 / 3 entries; hierarchy: one reference to a cell with a 2-vertex polygon and a label, magnification -2..2, both reflections, rotation 0 or free (c,s)'
OUTSIDE = 'qhull output (convex_hull minimality/ordering): replaced by the identity hull; references carrying a repetition inside the two-level query (no verdict within 10 GB: realloc/memcpy of the repeated point array); hierarchies deeper than two levels; path outlines inside cells'
ASSUMPTIONS = ['integer-exact model (range assertions in every query)']
