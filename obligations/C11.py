# C11 — repetitions (DESIGN.md 3.4)
R = '_ZNK5gdstk10Repetition'
SHAPES = [{'KIND': k, 'A': a, 'B': b} for k in (1, 2) for a in range(4) for b in range(4)] + [{'KIND': k, 'A': a, 'B': 0} for k in (3, 4, 5) for a in range(4)]
OBLIGATIONS = [
    Ob('count_offsets_extrema', 'C11/rep_enum.c', [R + '9get_countEv', R + '11get_offsetsERNS_5ArrayINS_4Vec2EEE', R + '11get_extremaERNS_5ArrayINS_4Vec2EEE'], model='ie',
       what='get_count == cardinality, get_offsets == the documented vectors (multiset, zero first), get_extrema subset of the set and spanning its bounding box',
       bound='every kind; columns, rows in 0..3 / explicit lists of 0..3 entries; spacings, lattice vectors and coordinates in -3..3 (duplicates, zeros, either sign)',
       variants=SHAPES, unwind=11, timeout=200, nvec=30),
    Ob('transform_is_linear_map', 'C11/rep_transform.c', ['_ZN5gdstk10Repetition9transformEdbd', R + '11get_offsetsERNS_5ArrayINS_4Vec2EEE'], model='ie', defines={'REAL_TOL': 1, 'IE_BITS': 14},
       what='Repetition::transform maps each vector by m * R(c,s) * reflect, including the kind changes Rectangular->Regular and ExplicitX/Y->Explicit',
       bound='kinds x shapes {2x3 rectangular, 2x2 regular lattice, 3-entry lists} x reflection x (rotation == 0 | != 0) x (magnification == 1 | in -3..3); cos, sin free integers in -2..2; vectors in -2..2',
       variants=[dict(KIND=k, A=a, B=b, REFL=f, ROT0=z, MAG1=g) for (k, a, b) in ((1, 2, 3), (2, 2, 2), (3, 3, 0), (4, 3, 0), (5, 3, 0)) for f in (0, 1) for z in (0, 1) for g in (0, 1)],
       unwind=8, timeout=300, real_stub_syms=['cos', 'sin', 'sincos'], nvec=40),
    Ob('polygon_apply_repetition', 'C11/apply_rep.c', ['_ZN5gdstk7Polygon16apply_repetitionERNS_5ArrayIPS0_EE'], model='ie',
       what='Polygon::apply_repetition: count-1 independent deep copies (vertices, tag, property list), copy k translated by vector k, original keeps its geometry and loses the repetition',
       bound='2-vertex polygon with one property; Rectangular 2x2, 1x1, 1x3; Regular 2x2; Explicit / ExplicitX / ExplicitY with 0 and 2 entries; values in -3..3',
       variants=[dict(KIND=k, A=a, B=b) for (k, a, b) in ((1, 2, 2), (1, 0, 2), (1, 1, 1), (1, 1, 3), (2, 2, 2), (3, 2, 0), (3, 0, 0), (4, 2, 0), (5, 2, 0), (5, 0, 0))],
       unwind=12, timeout=300, nvec=30),
]
BOUNDS = ''
OUTSIDE = ''
ASSUMPTIONS = ['integer-exact model: every double operation range-asserted (IEEE-754 exactness lemma)', 'malloc never fails']
