# C04 — OASIS agreement with the specification (DESIGN.md 3.10)
P = '_ZN5gdstk'
TOKSTUBS = [P + x for x in ('10oasis_putcEiRNS_11OasisStreamE', '11oasis_writeEPKvmmRNS_11OasisStreamE', '28oasis_write_unsigned_integerERNS_11OasisStreamEm',
    '19oasis_write_integerERNS_11OasisStreamEl', '18oasis_write_2deltaERNS_11OasisStreamEll', '18oasis_write_3deltaERNS_11OasisStreamEll', '18oasis_write_gdeltaERNS_11OasisStreamEll',
    '10oasis_readEPvmmRNS_11OasisStreamE', '27oasis_read_unsigned_integerERNS_11OasisStreamE', '18oasis_read_integerERNS_11OasisStreamE',
    '17oasis_read_2deltaERNS_11OasisStreamERlS2_', '17oasis_read_3deltaERNS_11OasisStreamERlS2_', '17oasis_read_gdeltaERNS_11OasisStreamERlS2_',
    '17oasis_read_stringERNS_11OasisStreamEbRm', '15oasis_read_realERNS_11OasisStreamE', '23oasis_read_real_by_typeERNS_11OasisStreamENS_13OasisDataTypeE', '16oasis_write_realERNS_11OasisStreamEd')]
RO = P + '8read_oasEPKcddPNS_9ErrorCodeE'
OBLIGATIONS = [
    Ob('reader_records', 'C04/rd_oas.c', [RO], ir='ni', stubs=TOKSTUBS, defines={'RC': 0, 'REFL': 0}, wrap_files=True,
       what='read_oas on spec-encoded records (token stream): RECTANGLE explicit and square, modal-variable reuse (layer, datatype, width, height, position) under XYRELATIVE: loads to exactly the encoded layout, every token consumed with the specified kind',
       bound='one or two records per cell; 32-bit layer/datatype, coordinates and sizes within 2^20; grid = 1 (real 1.0); integer/delta/real/string codecs as typed tokens (C19 proves the codecs)',
       variants=[{'ELEM': e} for e in (0, 1)], unwind=20, timeout=400, mem_gb=12, nvec=5),
    Ob('reader_records_more', 'C04/rd_oas.c', [RO], ir='ni', stubs=TOKSTUBS, defines={'RC': 0, 'REFL': 0}, wrap_files=True,
       what='read_oas on spec-encoded records (token stream): POLYGON with a general point list, PLACEMENT by name with each rotation code and the reflection bit, TEXT with inline string, TRAPEZOID (records 23/24/25, both orientations) and all 26 CTRAPEZOID types against reference vertex tables, a CTRAPEZOID that takes type / width / height / layer / datatype from the modal variables in XYRELATIVE mode, a RECTANGLE with a repetition followed by one whose repetition field re-uses it (type 0)',
       bound='one or two records per cell; values within 2^20 (POLYGON / TRAPEZOID / CTRAPEZOID geometry: +-64)',
       variants=[{'ELEM': 4}, {'ELEM': 2, 'LIM': 64}] + [{'ELEM': 3, 'RC': r, 'REFL': f} for r in range(4) for f in (0, 1)] + [{'ELEM': 5, 'REC': r, 'VERT': v, 'LIM': 64} for r in (23, 24, 25) for v in (0, 1)] + [{'ELEM': 6, 'CT': t, 'LIM': 64} for t in range(26)] + [{'ELEM': 15, 'CT': t, 'LIM': 64} for t in (0, 13, 20, 25)] + [{'ELEM': 16}], unwind=20, timeout=400, mem_gb=12, nvec=5),
    Ob('reader_properties', 'C04/rd_oas.c', [RO], ir='ni', stubs=TOKSTUBS, defines={'RC': 0, 'REFL': 0, 'ELEM': 7}, wrap_files=True,
       what='read_oas on a RECTANGLE followed by two PROPERTY records: inline name, explicit value list [unsigned integer, PROPSTRING reference], then re-use of name and value list from the modal variables (PROPERTY with V=1 / LAST_PROPERTY), the PROPSTRING defined afterwards: both properties carry the name and [the integer - still an integer -, the referenced string], in order',
       bound='one element; two properties with two values (reference types 13 / 14 / 15, re-use by record 28 with V = 1 or by record 29), or one property with four values named through a PROPNAME table; integers 64 bit, real any bits, string byte arbitrary',
       variants=[{'PREC': r, 'STRREF': k} for r in (28, 29) for k in (0, 1, 2)] + [{'ELEM': 12}], unwind=20, timeout=900, mem_gb=14, nvec=5),
    Ob('repetition_reader_vs_reference', 'C02/rep_oas.c', [P + '21oasis_read_repetitionERNS_11OasisStreamEdRNS_10RepetitionE', '_ZNK5gdstk10Repetition11get_offsetsERNS_5ArrayINS_4Vec2EEE'], ir='ni', stubs=[x for x in TOKSTUBS if 'real' not in x and 'string' not in x],
       model='ie', defines={'MODE': 1, 'B': 1, 'IE_BITS': 14, 'REAL_TOL': 1},
       what='oasis_read_repetition on a specification-encoded repetition field of each type 1..11 (grids with unsigned spaces, explicit x / y lists with and without grid multiplier, arbitrary lattices by g-delta, explicit displacement lists with and without grid): the Repetition built enumerates (real Repetition::get_offsets, C11) exactly the offsets the specification defines',
       bound='dimensions 2..3 (lists of 2..4 instances), spaces 0..5, displacements -5..5, grid multiplier 0..3; scaling 1',
       variants=[{'RTYPE': 1, 'A': a, 'B': b} for (a, b) in ((2, 2), (3, 2))] + [{'RTYPE': t, 'A': a} for t in (2, 3, 9) for a in (2, 3)] + [{'RTYPE': 8, 'A': a, 'B': b} for (a, b) in ((2, 2), (2, 3))]
                + [{'RTYPE': t, 'A': a} for t in (4, 5, 6, 7, 10, 11) for a in (2, 3, 4)], unwind=12, timeout=600, mem_gb=10, nvec=60),
    Ob('reader_path', 'C04/rd_oas.c', [RO], ir='ni', stubs=TOKSTUBS, defines={'RC': 0, 'REFL': 0, 'ELEM': 8, 'LIM': 64}, wrap_files=True,
       what='read_oas on a PATH record: half-width, each extension scheme (flush / half-width / explicit signed extension per end), a point list of two deltas (Manhattan 2-deltas or general g-deltas), position: loads as one simple path whose spine is the position plus the running sum of the deltas, with the given half-width at every point and the end style the scheme denotes; a second PATH that gives only a new half-width and position takes extensions (as values), point list, layer and datatype from the modal variables',
       bound='one PATH per cell; values within +-64 (bit-precise doubles), 32-bit layer / datatype; extension schemes 0x05, 0x0A, 0x0F, 0x07, 0x0D',
       variants=[{'EXT': e, 'PLT': t} for e in (0x05, 0x0A, 0x0F) for t in (2, 4)] + [{'EXT': 0x07, 'PLT': 4}, {'EXT': 0x0D, 'PLT': 2}, {'ELEM': 13}], unwind=20, timeout=900, mem_gb=12, mem_est_gb=6, nvec=20),
    Ob('reader_tables_and_modes', 'C04/rd_oas.c', [RO], ir='ni', stubs=TOKSTUBS, defines={'RC': 0, 'REFL': 0, 'TAB': 0}, wrap_files=True,
       what='read_oas: cells, label text and placement targets given through CELLNAME / TEXTSTRING tables that follow the cells (implicit numbering, or explicit numbers out of order), resolved at END; PLACEMENT with real magnification and angle (record 18); XYRELATIVE / XYABSOLUTE for TEXT and PLACEMENT with text string, text layer/type and placement cell re-used from the modal variables; the xy-mode itself is reset to absolute by every CELL record',
       bound='two cells, one to three labels / references; positions within 2^20; magnification: every non-NaN double; angles 0, 90, 270, 45, -30 degrees',
       variants=[{'ELEM': 9, 'TAB': t, 'RC': r, 'REFL': f} for t in (0, 1) for (r, f) in ((0, 0), (3, 1))] + [{'ELEM': 10, 'REFL': f, 'ANGV': a} for (f, a) in ((0, 0), (0, 90), (1, 270), (1, 45), (0, -30))] + [{'ELEM': 11}, {'ELEM': 14}], unwind=20, timeout=600, mem_gb=12, nvec=10),
]
BOUNDS = 'one cell, one or two RECTANGLE records; all field values symbolic within 2^20 (layer/datatype full 32 bits)'
OUTSIDE = 'every other record kind: POLYGON with a symbolic point list (no verdict in 400 s), PLACEMENT and TEXT (memory blow-up > 11 GB in the END-of-file name resolution), PATH, TRAPEZOID, CTRAPEZOID, CIRCLE, PROPERTY, CBLOCK, name tables; the whole writer direction; harness variants ELEM 2..4 are kept in harness/C04/rd_oas.c for future engines but are not run'
ASSUMPTIONS = ['OASIS integer / delta / real / string codecs replaced by a typed token stream (engine/env/oastok.h); their bijectivity is proved in C19', 'in-memory FILE model for the 14 header bytes', 'malloc never fails']
