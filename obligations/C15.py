# C15 — curves and primitives (DESIGN.md 3.14): the exact sub-class only
C = '_ZN5gdstk5Curve'
OBLIGATIONS = [
    Ob('straight_sections_and_exact_primitives', 'C15/exact.c', [C + '10horizontalEdb', C + '8verticalEdb', C + '7segmentENS_4Vec2Eb', C + '7segmentENS_5ArrayINS_4Vec2EEEb', C + '10horizontalENS_5ArrayIdEEb',
        '_ZN5gdstk9rectangleENS_4Vec2ES0_m', '_ZN5gdstk5crossENS_4Vec2Eddm'], model='ie', defines={'IE_BITS': 14, 'REL': 0}, real_stub_syms=['cos', 'sin', 'sincos'],
       what='Curve::horizontal / vertical / segment (single and array, relative and absolute): only append, end exactly at the requested point, last control point recorded; rectangle() and cross() have exactly the documented vertices',
       bound='curves with two prior vertices, coordinates -5..5; cross with even sizes',
       variants=[{'OP': o, 'REL': r} for o in range(5) for r in (0, 1)] + [{'OP': 5}, {'OP': 6}], unwind=14, timeout=200, nvec=20),
]
BOUNDS = 'exact sub-class only'
OUTSIDE = 'everything with tolerance: arcs, turns, Bezier / quadratic / cubic sampling, interpolation, parametric sections, ellipse, racetrack, fillet, regular_polygon (transcendental doubles; the adaptive samplers have no static loop bound). Noted while reading and confirmed by a seeded-change author: Curve::append_cubic/append_quad emit a NaN vertex when curvature x tolerance > 2 (acos argument below -1) - outside the decided sub-class, listed in DESIGN.md as an observation, not a checked finding'
ASSUMPTIONS = ['integer-exact model']
