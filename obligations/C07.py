# C07 — FlexPath (DESIGN.md 3.13): the bookkeeping sentence only; the outline geometry is not decided
FP = '_ZN5gdstk8FlexPath'
WRS = [FP + x for x in ('10horizontalEdPKdS2_b', '8verticalENS_5ArrayIdEEPKdS4_b', '7segmentENS_4Vec2EPKdS3_b', '7segmentENS_5ArrayINS_4Vec2EEEPKdS5_b', '5cubicENS_5ArrayINS_4Vec2EEEPKdS5_b',
    '3arcEdddddPKdS2_', '4turnEddPKdS2_', '16quadratic_smoothENS_4Vec2EPKdS3_b', '6bezierENS_5ArrayINS_4Vec2EEEPKdS5_b', '9quadraticENS_5ArrayINS_4Vec2EEEPKdS5_b',
    '12cubic_smoothENS_5ArrayINS_4Vec2EEEPKdS5_b', '10horizontalENS_5ArrayIdEEPKdS4_b')]
OBLIGATIONS = [
    Ob('width_offset_bookkeeping', 'C07/bookkeeping.c', WRS, ir='ni', validate=True,
       callrename={'_ZN5gdstk8FlexPath*': {'_ZN5gdstk5Curve*': 'curve_stub'}},
       what='one construction call (12 wrappers) from an arbitrary consistent 2-element path: afterwards every element has exactly one width/offset entry per spine point; the last entry is the requested (width/2, offset) or the previous one',
       bound='2 elements, 1 or 2 prior spine points, the curve method appends K in 0..3 points (contract), width/offset given or not',
       variants=[dict(WR=w, K=k, GIVEW=g, GIVEO=g, N0=2) for w in range(12) for (k, g) in ((2, 1), (1, 0))] + [dict(WR=0, K=0, GIVEW=1, GIVEO=1, N0=1), dict(WR=3, K=3, GIVEW=1, GIVEO=0, N0=1)],
       unwind=8, timeout=200, nvec=8),
]
BOUNDS = 'bookkeeping only'
OUTSIDE = 'the outline itself (FlexPath::to_polygons: joins, ends, bends - computed side decisions and sqrt/atan2/acos arithmetic; the Manhattan sub-class gave no verdict in 180 s / 8 GB); element_center and PATH record equivalence; interpolated intermediate width/offset values (i/K inexact)'
ASSUMPTIONS = ['each Curve construction method replaced by the contract "appends K points to the spine"', 'malloc never fails']
