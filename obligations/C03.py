# C03 — GDSII agreement with the specification (DESIGN.md 3.9)
RG = '_ZN5gdstk8read_gdsEPKcddPKNS_3SetImEEPNS_9ErrorCodeE'
RN = {'exp2': 'my_exp2', '__fdiv': 'uf_div'}
OBLIGATIONS = [
    Ob('reader_basic_elements', 'C03/rd_basic.c', [RG], shrink=[(65537, 96, set())], rename=RN, defines={'WITH_FLAGS': 0, 'WITH_MAG': 0, 'WITH_ANGLE': 0},
       what='read_gds on a spec-encoded stream: BOUNDARY (with/without ELFLAGS+PLEX), BOX, TEXT (PRESENTATION, STRANS, MAG, ANGLE present/absent), SREF resolved by name (STRANS, MAG, ANGLE present/absent) load to exactly the encoded layout',
       bound='one element per file, 32-bit coordinates within +-2^20, 15-bit layer/type, 1-character names/texts; unit = precision; MAG in {absent, 2, 0.5}, ANGLE in {absent, 90 degrees}',
       variants=[{'ELEM': 0, 'WITH_FLAGS': f} for f in (0, 1)] + [{'ELEM': 1}] + [{'ELEM': e, 'WITH_MAG': m, 'WITH_ANGLE': a} for e in (2, 3) for (m, a) in ((0, 0), (1, 1), (1, 0), (0, 1))],
       unwind=45, timeout=600, mem_gb=12, wrap_files=True, nvec=8, flags=['--max-field-sensitivity-array-size', '400']),
    Ob('reader_more_records', 'C03/rd_more.c', [RG, '_ZN5gdstk16get_gds_propertyEPNS_8PropertyEt'], shrink=[(65537, 96, set())], rename={'exp2': 'my_exp2'}, defines={'PT': -1, 'TARGET': 0},
       what='read_gds on spec-encoded PATH (each PATHTYPE, signed WIDTH, extensions), AREF with COLROW, PROPATTR/PROPVALUE pairs (odd and even lengths), XY split over two records, UNITS 1e-3/1e-9 natively and with a target unit',
       bound='one element per file, coordinates within +-2^16, widths/extensions/pitches up to 1000, 1-2 character strings',
       variants=[{'ELEM': 4, 'PT': t} for t in (-1, 0, 1, 2, 4)] + [{'ELEM': 5}, {'ELEM': 6}, {'ELEM': 7}] + [{'ELEM': 8, 'TARGET': t} for t in (0, 1)],
       unwind=45, timeout=900, mem_gb=14, wrap_files=True, nvec=8, flags=['--max-field-sensitivity-array-size', '400']),
    Ob('reader_sequences', 'C03/rd_seq.c', [RG], shrink=[(65537, 96, set())], rename=RN,
       what='read_gds on two elements (or two cells) in sequence: the second TEXT / SREF / PATH / BOUNDARY (also a PATH after a TEXT that carries PATHTYPE and WIDTH, an SREF after an AREF, a TEXT after an SREF and an SREF after a TEXT), which carries no STRANS, MAG, ANGLE, PRESENTATION, PATHTYPE, WIDTH, extensions or properties, loads with the defaults of the specification whatever the element before it carried',
       bound='two elements per file (same cell, or one per cell for TEXT), values as in reader_basic_elements',
       variants=[{'SEQ': k} for k in range(9)], unwind=45, timeout=900, mem_gb=14, wrap_files=True, nvec=8, flags=['--max-field-sensitivity-array-size', '450']),
    Ob('aref_export', 'C03/aref_export.c', ['_ZNK5gdstk9Reference6to_gdsEP8_IO_FILEd'], model='ie', defines={'IE_BITS': 14, 'REAL_TOL': 1},
       stubs=['_ZN5gdstk24is_multiple_of_pi_over_2EdRl', '_ZN5gdstk22gdsii_real_from_doubleEd'], rename={'strlen': 'my_strlen1'},
       what='Reference::to_gds writes an array reference whose COLROW and three corner points denote exactly the repetition\'s instance positions, column pitch along the rotated x axis and row pitch along the rotated y axis (incl. the branch that exchanges columns and rows)',
       bound='rectangular 2x3 and 3x2 lattices at rotation 0 and 90 degrees; regular lattice with v1 along y and v2 along x at rotation 0; pitches -6..6, origin -20..20; integer-exact model',
       variants=[dict(KIND=1, COLS=c, ROWS=r, ROT90=z) for (c, r) in ((2, 3), (3, 2)) for z in (0, 1)] + [dict(KIND=2, COLS=2, ROWS=3, ROT90=0), dict(KIND=2, COLS=3, ROWS=1, ROT90=0)],
       unwind=30, timeout=400, mem_gb=10, wrap_files=True, real_stub_syms=['cos', 'sin', 'sincos'], nvec=10),
    Ob('record_length_unsigned', 'C03/bigrecord.c', ['_ZN5gdstk17gdsii_read_recordEP8_IO_FILEPhRm'],
       what='gdsii_read_record with the 65537-byte buffer of the gdstk readers: every complete record of 4..65533 bytes (unsigned 16-bit big-endian length) is accepted, its length reported and the stream left exactly behind it; a stream that ends inside the record, or a length < 4, is an error',
       bound='stream length 0..65599 and all four header bytes symbolic; payload contents not modelled (bulk read)',
       variants=[{}], unwind=6, timeout=300, wrap_files=True, nvec=60),
]
BOUNDS = 'one element per file; coordinates within +-2^20 (reader) ; concrete MAG/ANGLE values; AREF export on axis-aligned lattices at 0 / 90 degrees'
OUTSIDE = 'symbolic MAG / ANGLE values in whole-file queries (their real8 codec is C19); rotations other than multiples of 90 degrees in AREF export (normalisation inexact); records longer than 92 bytes (a reader that mis-handles record lengths >= 32768 is not distinguished); Raith records; RobustPath / non-simple path export (outlines)'
ASSUMPTIONS = ['in-memory FILE model', 'libm contracts (exp2 of integers exact)', 'IEEE division uninterpreted (engine/env/ufdiv.h)']
