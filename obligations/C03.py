# C03 — GDSII agreement with the specification (DESIGN.md 3.9)
RG = '_ZN5gdstk8read_gdsEPKcddPKNS_3SetImEEPNS_9ErrorCodeE'
RN = {'exp2': 'my_exp2', '__fdiv': 'uf_div'}
OBLIGATIONS = [
    Ob('reader_basic_elements', 'C03/rd_basic.c', [RG], shrink=[(65537, 96, set())], rename=RN, defines={'WITH_FLAGS': 0, 'WITH_MAG': 0, 'WITH_ANGLE': 0},
       what='read_gds on a spec-encoded stream: BOUNDARY (with/without ELFLAGS+PLEX), BOX, TEXT (PRESENTATION, STRANS, MAG, ANGLE present/absent), SREF resolved by name (STRANS, MAG, ANGLE present/absent) load to exactly the encoded layout',
       bound='one element per file, 32-bit coordinates within +-2^20, 15-bit layer/type, 1-character names/texts; unit = precision; MAG in {absent, 2, 0.5}, ANGLE in {absent, 90 degrees}',
       variants=[{'ELEM': 0, 'WITH_FLAGS': f} for f in (0, 1)] + [{'ELEM': 1}] + [{'ELEM': e, 'WITH_MAG': m, 'WITH_ANGLE': a} for e in (2, 3) for (m, a) in ((0, 0), (1, 1), (1, 0), (0, 1))],
       unwind=45, timeout=600, mem_gb=12, wrap_files=True, nvec=8, flags=['--max-field-sensitivity-array-size', '400']),
    Ob('reader_more_records', 'C03/rd_more.c', [RG, '_ZN5gdstk16get_gds_propertyEPNS_8PropertyEt'], shrink=[(65537, 96, set())], rename={'exp2': 'my_exp2'}, defines={'PT': -1, 'TARGET': 0},
       what='read_gds on spec-encoded PATH (each PATHTYPE, signed WIDTH, extensions), AREF with COLROW, PROPATTR/PROPVALUE pairs (odd and even lengths), XY split over two records, UNITS 1e-3/1e-9 natively and with a target unit',
       bound='one element per file, coordinates within +-2^16, widths/extensions/pitches up to 1000, 1-2 character strings',
       variants=[{'ELEM': 4, 'PT': t} for t in (-1, 0, 1, 2, 4)] + [{'ELEM': 5}, {'ELEM': 6}, {'ELEM': 7}] + [{'ELEM': 8, 'TARGET': t} for t in (0, 1)],
       unwind=45, timeout=900, mem_gb=14, wrap_files=True, nvec=8, flags=['--max-field-sensitivity-array-size', '400']),
]
BOUNDS = ''
OUTSIDE = ''
ASSUMPTIONS = ['in-memory FILE model', 'libm contracts (exp2 of integers exact)', 'IEEE division uninterpreted (engine/env/ufdiv.h)']
