# C18 — truncated files (DESIGN.md 3.12)
REC = '_ZN5gdstk17gdsii_read_recordEP8_IO_FILEPhRm'
HASH = '_ZN5gdstk4hashEPKc'; COPYSTR = '_ZN5gdstk11copy_stringEPKcPm'
RAW = '_ZN5gdstk13read_rawcellsEPKcPNS_9ErrorCodeE'
def seqs(alpha, kmax):
    out = [0]; cur = [0]
    for _ in range(kmax):
        cur = [10 * s + d for s in cur for d in alpha]; out += cur
    return out
OBLIGATIONS = [
    Ob('record_reader', 'C18/record.c', [REC],
       what='gdsii_read_record on an arbitrary stream: NoError iff the complete record was available (and fits), delivered verbatim; error otherwise; no write beyond buffer_count',
       bound='stream lengths 0..12 (one variant each), all byte contents, caller buffer_count 0..24',
       variants=[{'STREAMLEN': n} for n in range(0, 13)], unwind=34, timeout=200, wrap_files=True, nvec=30),
    Ob('rawcells_truncated', 'C18/rawcells.c', [RAW], stubs=[REC, HASH, COPYSTR], ir='ni', shrink=[(65537, 64, {RAW})], rename={'strlen': 'my_strlen1'},
       what='read_rawcells after a prefix of records (kinds scripted, payload arbitrary) followed by a short read: returns, no double free / invalid free, handle released, error set, empty result',
       bound='record prefixes of length <= 3 from {BGNSTR, STRNAME, ENDSTR, SNAME, other} that matter for cleanup; names 1 character; hash arbitrary',
       variants=[{'SCRIPT': s} for s in (0, 1, 12, 124, 123, 1244, 14, 2, 1251)], unwind=10, timeout=400, mem_gb=10, wrap_files=True, unwinding_is_property=True),
    Ob('oas_light_queries', 'C18/oas_light.c', ['_ZN5gdstk13oas_precisionEPKcRd', '_ZN5gdstk12oas_validateEPKcPjPNS_9ErrorCodeE'], shrink=[(32768, 64, {'_ZN5gdstk12oas_validateEPKcPjPNS_9ErrorCodeE'})],
       rename={'trunc': 'my_trunc', 'fabs': 'my_fabs'}, defines={'VLEN': 3},
       what='oas_precision / oas_validate on the OASIS magic followed by arbitrary bytes, cut at an arbitrary position: return, no invalid access, handle released on every path (two calls in a row), validate succeeds only on a matching signature',
       bound='14 magic bytes + 8 arbitrary bytes; every cut position 0..22 (one variant each); version-string length byte in {0, 1, 3}; crc32 as a rolling function',
       variants=[{'OP': 0, 'VLEN': v, 'LEN': n} for v in (0, 1, 3) for n in range(0, 23) if not (v != 3 and n < 14)] + [{'OP': 1, 'LEN': n} for n in range(0, 23)], unwind=25, timeout=300, mem_gb=8, wrap_files=True, nvec=10),
    Ob('light_readers_truncated', 'C18/light_readers.c', ['_ZN5gdstk9gds_unitsEPKcRdS2_', '_ZN5gdstk13gds_timestampEPKcPK2tmPNS_9ErrorCodeE', '_ZN5gdstk8gds_infoEPKcRNS_11LibraryInfoE', '_ZN5gdstk20gdsii_real_to_doubleEm'],
       stubs=[REC, COPYSTR], shrink=[(65537, 64, set())], rename={'exp2': 'my_exp2', '__fdiv': 'uf_div'},
       what='gds_units / gds_timestamp(read) / gds_info after a scripted prefix of records then a short read: return, handle released, error - or (units, timestamp) exactly the values of the record already read',
       bound='prefixes HEADER, BGNLIB, LIBNAME, UNITS, BGNSTR, STRNAME, BOUNDARY, LAYER, DATATYPE in file order, cut after each; payload bytes arbitrary',
       variants=[{'READER': r, 'SCRIPT': sc} for r in (0, 1, 2) for sc in (0, 1, 12, 123, 1234, 12345, 123456, 1234567, 12345678) if not (r == 0 and sc > 1234) and not (r == 1 and sc > 123)], unwind=27, timeout=300, mem_gb=8, wrap_files=True, nvec=10),
    Ob('read_gds_truncated', 'C18/read_gds.c', ['_ZN5gdstk8read_gdsEPKcddPKNS_3SetImEEPNS_9ErrorCodeE'],
       stubs=[REC], shrink=[(65537, 64, set())], rename={'exp2': 'my_exp2', '__fdiv': 'uf_div', 'strlen': 'my_strlen1'},
       what='read_gds after every prefix of HEADER LIBNAME UNITS BGNSTR STRNAME BOUNDARY LAYER XY ENDEL followed by a short read: returns, no invalid/double free, handle released, error set, empty library',
       bound='the 8 prefixes up to LAYER (the XY / ENDEL prefixes gave no verdict within 10 GB); payload bytes (names, units, coordinates, layer) arbitrary, data-type bytes as in a valid file',
       variants=[{'SCRIPT': sc} for sc in (0, 1, 12, 123, 1234, 12345, 123456, 1234567)], unwind=19, timeout=400, mem_gb=10, wrap_files=True, nvec=10),
]
BOUNDS = 'record reader: streams of 0..12 bytes; readers: scripted record prefixes (kinds enumerated, payload arbitrary) followed by a short read; OASIS light queries: magic + 8 arbitrary bytes, every cut position'
OUTSIDE = 'the full OASIS loader (excluded by the property); record payloads longer than 24 bytes; prefixes longer than 8 records; read_gds prefixes that include XY / ENDEL records; memory leaks (only handle leaks and invalid accesses are asserted)'
ASSUMPTIONS = ['gdsii_read_record replaced by its contract in the reader obligations (scripted record kinds, arbitrary payload, then a short read); the real function is the subject of record_reader', 'in-memory FILE model (engine/env/vfile.h)', 'malloc never fails']
