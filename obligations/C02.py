# C02 — OASIS round trip (DESIGN.md 3.10): the polygon kernel with shape detection
import importlib.util, os
P = '_ZN5gdstk'
TOKSTUBS = [P + x for x in ('10oasis_putcEiRNS_11OasisStreamE', '11oasis_writeEPKvmmRNS_11OasisStreamE', '28oasis_write_unsigned_integerERNS_11OasisStreamEm',
    '19oasis_write_integerERNS_11OasisStreamEl', '18oasis_write_2deltaERNS_11OasisStreamEll', '18oasis_write_3deltaERNS_11OasisStreamEll', '18oasis_write_gdeltaERNS_11OasisStreamEll',
    '10oasis_readEPvmmRNS_11OasisStreamE', '27oasis_read_unsigned_integerERNS_11OasisStreamE', '18oasis_read_integerERNS_11OasisStreamE',
    '17oasis_read_2deltaERNS_11OasisStreamERlS2_', '17oasis_read_3deltaERNS_11OasisStreamERlS2_', '17oasis_read_gdeltaERNS_11OasisStreamERlS2_',
    '17oasis_read_stringERNS_11OasisStreamEbRm', '15oasis_read_realERNS_11OasisStreamE', '23oasis_read_real_by_typeERNS_11OasisStreamENS_13OasisDataTypeE', '16oasis_write_realERNS_11OasisStreamEd')]
TO = '_ZNK5gdstk7Polygon6to_oasERNS_11OasisStreamERNS_10OasisStateE'
OBLIGATIONS = [
    Ob('polygon_writer_vs_reference', 'C02/poly_wr.c', [TO], ir='ni', stubs=TOKSTUBS, rename={'llround': 'my_llround'},
       what='Polygon::to_oas under every rectangle / trapezoid detection setting: the record it selects (RECTANGLE, TRAPEZOID A/B/AB, CTRAPEZOID 0..25, POLYGON with point-list type 0..4) decodes - by a reference decoder written from the record definitions - to the vertex cycle, layer and datatype of the polygon, every field explicit; composes with the reader-side obligations of C04 / C19 (same reference) to the save/load round trip of a polygon',
       bound='every 3- and 4-vertex polygon with distinct integer vertices in -4..4 and non-zero area (5 vertices in -3..3), 32-bit layer / datatype, scaling 1, detection flags in {none, rectangles, trapezoids, both}; codecs as typed tokens (C19 proves them)',
       variants=[{'NVERT': n, 'FLAGS': f} for n in (3, 4) for f in (0x30, 0x20, 0x10, 0)] + [{'NVERT': 5, 'FLAGS': 0x30, 'R': 3}], unwind=12, timeout=900, mem_gb=12, nvec=60),
    Ob('stream_signature', 'C02/signature.c', [P + '10oasis_putcEiRNS_11OasisStreamE', P + '11oasis_writeEPKvmmRNS_11OasisStreamE', P + '28oasis_write_unsigned_integerERNS_11OasisStreamEm', P + '19oasis_write_integerERNS_11OasisStreamEl'],
       what='the running signature of the OASIS output stream equals the signature of the bytes that reached the file, for any interleaving of single-byte writes, block writes and integer codecs: CRC32 when requested (also with both kinds requested), else the byte sum when requested, else untouched',
       bound='7 write calls (3 single bytes, 2 blocks, an unsigned < 2^21 and a signed integer), all byte values symbolic; the four combinations of the two signature flags',
       variants=[{'WANT_CRC': c, 'WANT_SUM': k} for c in (0, 1) for k in (0, 1)], unwind=16, timeout=300, wrap_files=True, nvec=20),
    Ob('repetition_writer_vs_reference', 'C02/rep_oas.c', [P + '22oasis_write_repetitionERNS_11OasisStreamENS_10RepetitionEd'], ir='ni', stubs=[x for x in TOKSTUBS if 'real' not in x and 'string' not in x], model='ie', defines={'MODE': 0, 'B': 1, 'IE_BITS': 14, 'REAL_TOL': 1},
       what='oasis_write_repetition against a reference decoder of the repetition types 1..11: the emitted field denotes exactly the offsets of the repetition (multiset, first instance at the origin), for rectangular / regular lattices and explicit lists with spacings and coordinates of either sign',
       bound='rectangular and regular 2x2, 3x1, 1x3, 2x3; explicit / explicit-x / explicit-y lists of 1..3 entries; values in -5..5; scaling 1',
       variants=[{'KIND': k, 'A': a, 'B': b} for k in (1, 2) for (a, b) in ((2, 2), (3, 1), (1, 3), (2, 3))] + [{'KIND': k, 'A': a} for k in (3, 4, 5) for a in (1, 2, 3)], unwind=12, timeout=600, mem_gb=10, nvec=60),
    Ob('properties_writer_vs_reference', 'C02/props_wr.c', [P + '17properties_to_oasEPKNS_8PropertyERNS_11OasisStreamERNS_10OasisStateE'], ir='ni', stubs=TOKSTUBS + [P + '4hashEPKc'], rename={'strlen': 'my_strlen1'},
       what='properties_to_oas against a reference decoder of the PROPERTY record: per property one record with the name as the reference number of the writer\'s name table (one number per distinct name), the values in order - unsigned, signed, real by value, strings as a-/b-/n-string reference by byte class to a string-table entry with exactly those bytes; composes with the reader-side PROPERTY obligations of C04',
       bound='1 or 2 properties with 4 and 2 values (unsigned, signed != INT64_MIN, reals: any bits, two strings of 2 arbitrary bytes each), equal or distinct 1-character names; hash arbitrary',
       variants=[{'NP': 1, 'SAME': 0}, {'NP': 2, 'SAME': 0}, {'NP': 2, 'SAME': 1}], unwind=16, timeout=600, mem_gb=10, nvec=40),
    Ob('library_writer_references_labels', 'C02/lib_wr.c', [P + '7Library9write_oasEPKcdht'], ir='ni', stubs=TOKSTUBS + [P + '4hashEPKc', '_ZNK5gdstk7Polygon8fractureEmdRNS_5ArrayIPS0_EE', '_ZN5gdstk11convex_hullENS_5ArrayINS_4Vec2EEERS2_'], rename={'strlen': 'my_strlen1', 'llround': 'my_llround', 'exp2': 'my_exp2'},
       defines={'MAGSYM': 0, 'REFL': 0, 'ROTK': 0, 'HASHFIX': 1, 'LAB2': 0},
       what='Library::write_oas for a cell with one reference and one label (and a second label in the referenced cell), decoded by a reference decoder of the record definitions (START, CELL, PLACEMENT 17/18, TEXT, CELLNAME / TEXTSTRING tables, END): the placement names the referenced cell whether it is in the library, referenced by name, or a cell object never added to the library; magnification, angle, reflection, positions, label text / layer / type are the saved ones; the END record is well formed',
       bound='cells with 1-character names; positions within 2^20, 32-bit text layer / type; rotation in {0, 90, 180, -90 degrees, 0.3 rad}; magnification 1 or 2.5; no compression, no standard properties',
       variants=[{'TGT': t, 'ROTK': k, 'REFL': f, 'MAGSYM': m} for (t, k, f, m) in ((0, 0, 0, 0), (1, 1, 1, 0), (2, 2, 0, 0), (3, 3, 1, 0), (0, 4, 0, 0), (1, 0, 0, 1), (2, 1, 1, 1))] + [{'TGT': 0, 'ROTK': 1, 'REFL': 0, 'MAGSYM': 0, 'LAB2': 1}],
       unwind=14, unwindset=['_ZN5gdstk11oasis_writeEPKvmmRNS_11OasisStreamE.0:20', 'main.0:20'], flags=['--max-field-sensitivity-array-size', '110'], timeout=900, mem_gb=14, mem_est_gb=12, wrap_files=True, nvec=10),
]
BOUNDS = 'single polygons with 3..5 vertices on a small integer grid; the writer and the reader are decided separately against one reference decoder'
OUTSIDE = 'the composite write_oas -> read_oas query (no verdict: the record kind is a computed choice, the reader then allocates a symbolic amount); circle detection (transcendental); paths, labels, references, repetitions and properties in OASIS; name tables; CBLOCK compression (zlib) for 9 of 10 levels; validation signatures over whole files; repeated cycles'
ASSUMPTIONS = ['OASIS integer / delta codecs as a typed token stream (C19 proves the codecs)', 'llround by contract (exact)', 'malloc never fails']
