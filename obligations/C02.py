# C02 — OASIS round trip (DESIGN.md 3.10): the polygon kernel with shape detection
import importlib.util, os
P = '_ZN5gdstk'
TOKSTUBS = [P + x for x in ('10oasis_putcEiRNS_11OasisStreamE', '11oasis_writeEPKvmmRNS_11OasisStreamE', '28oasis_write_unsigned_integerERNS_11OasisStreamEm',
    '19oasis_write_integerERNS_11OasisStreamEl', '18oasis_write_2deltaERNS_11OasisStreamEll', '18oasis_write_3deltaERNS_11OasisStreamEll', '18oasis_write_gdeltaERNS_11OasisStreamEll',
    '10oasis_readEPvmmRNS_11OasisStreamE', '27oasis_read_unsigned_integerERNS_11OasisStreamE', '18oasis_read_integerERNS_11OasisStreamE',
    '17oasis_read_2deltaERNS_11OasisStreamERlS2_', '17oasis_read_3deltaERNS_11OasisStreamERlS2_', '17oasis_read_gdeltaERNS_11OasisStreamERlS2_',
    '17oasis_read_stringERNS_11OasisStreamEbRm', '15oasis_read_realERNS_11OasisStreamE', '23oasis_read_real_by_typeERNS_11OasisStreamENS_13OasisDataTypeE', '16oasis_write_realERNS_11OasisStreamEd')]
OBLIGATIONS = [
    Ob('polygon_shape_detection_roundtrip', 'C02/poly_oas.c', [P + '8read_oasEPKcddPNS_9ErrorCodeE', '_ZNK5gdstk7Polygon6to_oasERNS_11OasisStreamERNS_10OasisStateE'], ir='ni', stubs=TOKSTUBS, real=False,
       what='Polygon::to_oas (rectangle + trapezoid detection on) followed by read_oas gives back the same vertex cycle, layer and datatype, whichever record (RECTANGLE, TRAPEZOID_A/B/AB, CTRAPEZOID type 0..25, POLYGON) the writer selects',
       bound='every simple 3- and 4-vertex polygon with integer coordinates in -3..3 (non-zero area, distinct vertices); grid 1; codecs as typed tokens',
       variants=[{'NVERT': 3}, {'NVERT': 4}], unwind=20, timeout=900, mem_gb=14, nvec=40),
]
BOUNDS = ''
OUTSIDE = ''
ASSUMPTIONS = ['OASIS integer / delta / real / string codecs as a typed token stream (C19 proves the codecs)', 'malloc never fails']
