# C19 — number encodings (DESIGN.md 3.1)
P = '_ZN5gdstk'
OAS_W = [P + '28oasis_write_unsigned_integerERNS_11OasisStreamEm', P + '19oasis_write_integerERNS_11OasisStreamEl',
         P + '18oasis_write_2deltaERNS_11OasisStreamEll', P + '18oasis_write_3deltaERNS_11OasisStreamEll', P + '18oasis_write_gdeltaERNS_11OasisStreamEll']
OAS_R = [P + '27oasis_read_unsigned_integerERNS_11OasisStreamE', P + '18oasis_read_integerERNS_11OasisStreamE',
         P + '17oasis_read_2deltaERNS_11OasisStreamERlS2_', P + '17oasis_read_3deltaERNS_11OasisStreamERlS2_', P + '17oasis_read_gdeltaERNS_11OasisStreamERlS2_']
OBLIGATIONS = [
    Ob('oas_int_roundtrip', 'C19/oas_int.c', OAS_W + OAS_R,
       what='decode(encode(v)) == v with exact length and no error flag, for OASIS unsigned / signed / 2- / 3- / g-delta',
       bound='all 64-bit unsigned; signed all but INT64_MIN; deltas |v| < 2^60..2^62 (packed direction bits take up to 4 bits)',
       variants=[{'OP': k} for k in range(5)], unwind=12, timeout=300),
    Ob('oas_int_decoders_vs_reference', 'C19/oas_dec.c', OAS_R,
       what='OASIS unsigned/signed/2-/3-/g-delta decoders equal a 128-bit reference interpreter of the grammar on arbitrary byte strings (value, consumed length); values that do not fit raise the Overflow flag',
       bound='every byte string whose integer encodings are 1..11 bytes long each (non-minimal encodings included)',
       variants=[{'OP': k} for k in range(5)], unwind=13, timeout=300),
]
BOUNDS = 'see obligations'
OUTSIDE = ''
ASSUMPTIONS = ['malloc never fails (--no-malloc-may-fail)']
