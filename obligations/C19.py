# C19 — number encodings (DESIGN.md 3.1)
P = '_ZN5gdstk'
OAS_W = [P + '28oasis_write_unsigned_integerERNS_11OasisStreamEm', P + '19oasis_write_integerERNS_11OasisStreamEl',
         P + '18oasis_write_2deltaERNS_11OasisStreamEll', P + '18oasis_write_3deltaERNS_11OasisStreamEll', P + '18oasis_write_gdeltaERNS_11OasisStreamEll']
OAS_R = [P + '27oasis_read_unsigned_integerERNS_11OasisStreamE', P + '18oasis_read_integerERNS_11OasisStreamE',
         P + '17oasis_read_2deltaERNS_11OasisStreamERlS2_', P + '17oasis_read_3deltaERNS_11OasisStreamERlS2_', P + '17oasis_read_gdeltaERNS_11OasisStreamERlS2_']
OBLIGATIONS = [
    Ob('oas_int_roundtrip', 'C19/oas_int.c', OAS_W + OAS_R,
       what='decode(encode(v)) == v with exact length and no error flag, for OASIS unsigned / signed / 2- / 3- / g-delta',
       bound='all 64-bit unsigned; signed all but INT64_MIN; deltas |v| < 2^60..2^62 (packed direction bits take up to 4 bits)',
       variants=[{'OP': k} for k in range(5)], unwind=12, timeout=300),
    Ob('oas_int_decoders_vs_reference', 'C19/oas_dec.c', OAS_R,
       what='OASIS unsigned/signed/2-/3-/g-delta decoders equal a 128-bit reference interpreter of the grammar on arbitrary byte strings (value, consumed length); values that do not fit raise the Overflow flag',
       bound='every byte string whose integer encodings are 1..11 bytes long each (non-minimal encodings included)',
       variants=[{'OP': k} for k in range(5)], unwind=13, timeout=300),
    Ob('gds_real_roundtrip', 'C19/gds_real.c', [P + '22gdsii_real_from_doubleEd', P + '20gdsii_real_to_doubleEm'],
       what='gdsii_real_to_double(gdsii_real_from_double(v)) within 1 ulp of v, same sign, for all doubles in the format range; zero; finiteness of every decoded pattern',
       bound='all doubles with 2^-256 <= |v| < 2^252 (= 16^-64 .. 16^63), under the libm contracts for log2/pow/exp2/ceil',
       rename={'log2': 'my_log2', 'ceil': 'my_ceil', 'exp2': 'my_exp2', 'pow': 'my_pow'},
       variants=[{'OP': 0}, {'OP': 1}], unwind=2, timeout=300, retry_defines=['-DLOG2_TIGHT']),
    Ob('oas_real_roundtrip', 'C19/oas_real.c', [P + '16oasis_write_realERNS_11OasisStreamEd', P + '15oasis_read_realERNS_11OasisStreamE'],
       what='oasis_read_real(oasis_write_real(v)) == v bit for bit, whichever form (integer, reciprocal, float64) the writer picks',
       bound='every finite double; IEEE division as an uninterpreted sign-symmetric function (proof holds for any such function)',
       rename={'trunc': 'my_trunc', 'fabs': 'my_fabs', '__fdiv': 'uf_div'},
       variants=[{'OP': 0}], unwind=12, timeout=600, mem_gb=12, fallback='oas_real_roundtrip_bitdiv'),
    Ob('oas_real_roundtrip_bitdiv', 'C19/oas_real.c', [P + '16oasis_write_realERNS_11OasisStreamEd', P + '15oasis_read_realERNS_11OasisStreamE'],
       what='same obligation with the bit-precise IEEE divider: used to obtain a replayable counterexample when the abstract one does not reproduce',
       bound='every finite double', rename={'trunc': 'my_trunc', 'fabs': 'my_fabs', '__fdiv': 'uf_div'}, defines={'REAL_DIV': 1},
       variants=[{'OP': 0}], unwind=12, timeout=400, mem_gb=12, tier='fallback'),
    Ob('oas_real_forms_vs_reference', 'C19/oas_real.c', [P + '23oasis_read_real_by_typeERNS_11OasisStreamENS_13OasisDataTypeE'],
       what='oasis_read_real_by_type for each real type 0..7 equals the reference reading (nearest double of n, 1/n, a/b; float32/float64 little endian), length consumed',
       bound='integers encoded in 1..3 bytes each (n < 2^21); all finite float32 / float64 patterns; IEEE division uninterpreted',
       rename={'trunc': 'my_trunc', 'fabs': 'my_fabs', '__fdiv': 'uf_div'},
       variants=[{'OP': 1, 'TYPE': t} for t in range(8)], unwind=9, timeout=300),
]
BOUNDS = 'see obligations'
OUTSIDE = ''
ASSUMPTIONS = ['malloc never fails (--no-malloc-may-fail)']
