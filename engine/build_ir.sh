#!/bin/bash
# build_ir.sh <outdir> : /repo working tree (+ /verif/wrappers/*.cpp) -> linked LLVM-14 textual IR
#   <outdir>/gdstk.ll      default inlining (-O1)
#   <outdir>/gdstk_ni.ll   -fno-inline (callees stay separate so harnesses can stub exactly one)
set -euo pipefail
OUT="$1"; REPO="${REPO:-/repo}"; VERIF="$(cd "$(dirname "$0")/.." && pwd)"
mkdir -p "$OUT/ll" "$OUT/ll_ni"
FLAGS="-std=c++17 -O1 -DNDEBUG -DHEITZMANN_GDSTK_VERIF -fno-pic -fno-exceptions -ffp-contract=off -fno-vectorize -fno-slp-vectorize -fno-unroll-loops -I$REPO/include -I$REPO/external -I$REPO/external/clipper -S -emit-llvm"
SRCS=$(ls $REPO/src/*.cpp; ls $VERIF/wrappers/*.cpp 2>/dev/null || true)
pids=()
for f in $SRCS; do
  b=$(basename "$f" .cpp)
  ( clang++-14 $FLAGS "$f" -o "$OUT/ll/$b.ll" 2> "$OUT/ll/$b.err" || { cat "$OUT/ll/$b.err" >&2; exit 1; } ) &
  pids+=($!)
  ( clang++-14 $FLAGS -fno-inline "$f" -o "$OUT/ll_ni/$b.ll" 2> "$OUT/ll_ni/$b.err" || { cat "$OUT/ll_ni/$b.err" >&2; exit 1; } ) &
  pids+=($!)
done
rc=0
for p in "${pids[@]}"; do wait $p || rc=1; done
[ $rc -eq 0 ] || { echo "build_ir: clang failed" >&2; exit 2; }
llvm-link-14 -S "$OUT"/ll/*.ll -o "$OUT/gdstk.ll"
llvm-link-14 -S "$OUT"/ll_ni/*.ll -o "$OUT/gdstk_ni.ll"
sha256sum "$OUT/gdstk.ll" "$OUT/gdstk_ni.ll" > "$OUT/ir.sha256"
