#!/usr/bin/env python3
"""LLVM-14 textual IR -> C translator (typed pointers) for CBMC.

Two arithmetic models (DESIGN.md 2.2):
  bit : double stays double (CBMC IEEE-754 encoding)
  ie  : integer-exact; double -> IE_T (int64 carrier), every fadd/fsub/fmul range-asserted,
        fdiv asserted exact, non-integral constants only via exact-fraction multiply/compare.
Options: --roots, --stubs (omit body, harness supplies contract), --rename a=b,
         --shrink N=M:fn1;fn2 (alloca [N x i8] and the constant N inside the listed functions -> M).
Fails loudly (UNSUPPORTED -> body traps) on anything it cannot translate.
"""
import re, sys, struct
from fractions import Fraction
MODEL = 'bit'

# ---------------------------------------------------------------- types
class T:
    pass
class Int(T):
    def __init__(s, n): s.n = n
    def __repr__(s): return f"i{s.n}"
class Flt(T):
    def __init__(s, k): s.k = k
    def __repr__(s): return s.k
class Void(T):
    def __repr__(s): return "void"
class Ptr(T):
    def __init__(s, to): s.to = to
    def __repr__(s): return f"{s.to}*"
class Arr(T):
    def __init__(s, n, el): s.n, s.el = n, el
    def __repr__(s): return f"[{s.n} x {s.el}]"
class Struct(T):
    def __init__(s, name=None, fields=None, packed=False, opaque=False):
        s.name, s.fields, s.packed, s.opaque = name, fields, packed, opaque
    def __repr__(s): return f"%{s.name}" if s.name else "{" + ",".join(map(repr, s.fields)) + "}"
class Func(T):
    def __init__(s, ret, params, vararg): s.ret, s.params, s.vararg = ret, params, vararg
    def __repr__(s): return f"{s.ret}({s.params})"
class Label(T): pass
class Meta(T): pass

def san(name):
    return re.sub(r'[^A-Za-z0-9_]', '_', name)

class Lexer:
    TOK = re.compile(r'''\s*(?:
        (?P<str>c?"(?:[^"\\]|\\.)*")|
        (?P<lid>%(?:"(?:[^"\\]|\\.)*"|[-A-Za-z0-9$._]+))|
        (?P<gid>@(?:"(?:[^"\\]|\\.)*"|[-A-Za-z0-9$._]+))|
        (?P<meta>![-A-Za-z0-9$._]*(?:\([^)]*\))?)|
        (?P<attr>\#[0-9]+)|
        (?P<num>-?(?:0x[KMLHR]?[0-9A-Fa-f]+|[0-9]+\.[0-9]*(?:[eE][-+]?[0-9]+)?|[0-9]+))|
        (?P<word>[A-Za-z_][A-Za-z0-9_.]*)|
        (?P<dots>\.\.\.)|
        (?P<p>[()\[\]{}<>,=*:|])
    )''', re.X)
    def __init__(s, text):
        s.toks = []
        pos = 0
        n = len(text)
        while pos < n:
            m = s.TOK.match(text, pos)
            if not m:
                if text[pos:].strip() == '': break
                raise SyntaxError("lex: " + text[pos:pos+60])
            pos = m.end()
            k = m.lastgroup
            s.toks.append((k, m.group(k)))
        s.i = 0
    def peek(s, o=0):
        return s.toks[s.i+o] if s.i+o < len(s.toks) else (None, None)
    def next(s):
        t = s.toks[s.i]; s.i += 1; return t
    def accept(s, v):
        if s.peek()[1] == v:
            s.i += 1; return True
        return False
    def expect(s, v):
        t = s.next()
        if t[1] != v: raise SyntaxError(f"expected {v} got {t} near {s.toks[max(0,s.i-6):s.i+4]}")
    def done(s): return s.i >= len(s.toks)

def unq(name):
    # strip sigil and quotes
    n = name[1:]
    if n.startswith('"'):
        n = n[1:-1]
    return n

PARAM_ATTRS = {'noundef','nonnull','nocapture','readonly','writeonly','readnone','noalias','signext','zeroext',
    'immarg','returned','nofree','inreg','nest','swiftself','swifterror','noalias'}
class Module:
    def __init__(s):
        s.structs = {}      # name -> Struct
        s.globals = {}      # name -> (type, init_tokens|None, const)
        s.funcs = {}        # name -> dict(ret, params[(type,name)], vararg, blocks|None)
        s.order = []

    # ------------------------------------------------ type parsing
    def ptype(s, lx):
        k, v = lx.next()
        if k == 'word':
            if re.fullmatch(r'i\d+', v): t = Int(int(v[1:]))
            elif v in ('double', 'float', 'x86_fp80', 'half', 'fp128'): t = Flt(v)
            elif v == 'void': t = Void()
            elif v == 'label': t = Label()
            elif v == 'metadata': t = Meta()
            elif v == 'opaque': t = Struct(opaque=True, fields=[])
            elif v == 'ptr': t = Ptr(Int(8))
            else: raise SyntaxError("type? " + v)
        elif k == 'lid':
            n = unq(v)
            if n not in s.structs: s.structs[n] = Struct(name=n, fields=None)
            t = s.structs[n]
        elif v == '[':
            n = int(lx.next()[1]); lx.expect('x'); el = s.ptype(lx); lx.expect(']')
            t = Arr(n, el)
        elif v == '{':
            fs = []
            if not lx.accept('}'):
                while True:
                    fs.append(s.ptype(lx))
                    if lx.accept('}'): break
                    lx.expect(',')
            t = Struct(fields=fs)
        elif v == '<':
            if lx.peek()[1] == '{':
                lx.next(); fs = []
                if not lx.accept('}'):
                    while True:
                        fs.append(s.ptype(lx))
                        if lx.accept('}'): break
                        lx.expect(',')
                lx.expect('>')
                t = Struct(fields=fs, packed=True)
            else:
                raise SyntaxError("vector types unsupported")
        else:
            raise SyntaxError(f"type? {k} {v}")
        while True:
            if lx.accept('*'):
                t = Ptr(t)
            elif lx.peek()[1] == '(' :
                # function type
                lx.next(); ps = []; va = False
                if not lx.accept(')'):
                    while True:
                        if lx.accept('...'): va = True
                        else:
                            ps.append(s.ptype(lx))
                            while lx.peek()[0] == 'word' and lx.peek()[1] in PARAM_ATTRS: lx.next()
                        if lx.accept(')'): break
                        lx.expect(',')
                t = Func(t, ps, va)
            else:
                break
        return t

# ---------------------------------------------------------------- C emission helpers
class Emit:
    def __init__(s, mod, rename):
        s.m = mod
        s.rename = rename
        s.anon = {}
        s.arrs = {}
        s.typedefs = []
        s.done_structs = set()
        s.shrink = []
    def ctype(s, t):
        if isinstance(t, Int):
            if t.n == 1: return 'uint8_t'
            if t.n <= 8: return 'uint8_t'
            if t.n <= 16: return 'uint16_t'
            if t.n <= 32: return 'uint32_t'
            if t.n <= 64: return 'uint64_t'
            return 'unsigned __int128'
        if isinstance(t, Flt):
            if MODEL == 'ie': return 'IE_T'
            return {'double': 'double', 'float': 'float', 'x86_fp80': 'long double'}[t.k]
        if isinstance(t, Void): return 'void'
        if isinstance(t, Ptr):
            if isinstance(t.to, Func):
                return s.fptr(t.to)
            if isinstance(t.to, Void): return 'void*'
            return s.ctype(t.to) + '*'
        if isinstance(t, Arr):
            key = (t.n, s.ctype(t.el))
            if key not in s.arrs:
                nm = f"arr{t.n}_" + san(key[1].replace('*', 'P').replace(' ', '_'))
                s.arrs[key] = nm
                s.typedefs.append(f"struct {nm} {{ {key[1]} a[{max(t.n,1)}]; }};")
            return 'struct ' + s.arrs[key]
        if isinstance(t, Struct):
            if t.name:
                return 'struct S_' + san(t.name)
            key = (tuple(s.ctype(f) for f in t.fields), t.packed)
            if key not in s.anon:
                nm = f"anon{len(s.anon)}"
                s.anon[key] = nm
                body = ' '.join(f"{c} f{i};" for i, c in enumerate(key[0]))
                s.typedefs.append(f"struct {nm} {{ {body} }}{' __attribute__((packed))' if t.packed else ''};")
            return 'struct ' + s.anon[key]
        if isinstance(t, Func):
            return s.fptr(t)  # decays
        raise TypeError(t)
    def fptr(s, f):
        key = ('fp', s.ctype(f.ret), tuple(s.ctype(p) for p in f.params), f.vararg)
        if key not in s.anon:
            nm = f"fp{len(s.anon)}"
            s.anon[key] = nm
            ps = ', '.join(key[2]) or 'void'
            if f.vararg: ps += ', ...' if key[2] else ''
            s.typedefs.append(f"typedef {key[1]} (*{nm})({ps});")
        return s.anon[key]

def align_of(t):
    if isinstance(t, Int): return max(1, width(t) // 8)
    if isinstance(t, Flt): return {'double': 8, 'float': 4, 'x86_fp80': 16}[t.k]
    if isinstance(t, Ptr): return 8
    if isinstance(t, Arr): return align_of(t.el)
    if isinstance(t, Struct):
        if t.packed: return 1
        return max([align_of(f) for f in (t.fields or [])] or [1])
    raise TypeError(t)
def size_of(t):
    if isinstance(t, Int): return max(1, width(t) // 8)
    if isinstance(t, Flt): return {'double': 8, 'float': 4, 'x86_fp80': 16}[t.k]
    if isinstance(t, Ptr): return 8
    if isinstance(t, Arr): return t.n * size_of(t.el)
    if isinstance(t, Struct):
        if t.opaque or t.fields is None: raise TypeError('opaque')
        off = 0
        for f in t.fields:
            a = 1 if t.packed else align_of(f)
            off = (off + a - 1) // a * a + size_of(f)
        a = align_of(t)
        return (off + a - 1) // a * a
    raise TypeError(t)

def sint(n):
    return {8: 'int8_t', 16: 'int16_t', 32: 'int32_t', 64: 'int64_t', 128: '__int128'}[n]
def width(t):
    n = t.n
    for w in (8, 16, 32, 64, 128):
        if n <= w: return w

def fconst(tok, ty):
    if MODEL == 'ie':
        if tok.startswith('0x'):
            if tok[2] in 'KMLHR': raise SyntaxError("long double const")
            bits = int(tok[2:], 16); d = struct.unpack('<d', struct.pack('<Q', bits))[0]
        else:
            d = float(tok)
        if d == d and abs(d) < 2**31 and d == int(d): return f"((IE_T){int(d)})"
        if d == d and abs(d) >= 2.0**62: return "IE_POSINF" if d > 0 else "IE_NEGINF"     # DBL_MAX-style sentinels: beyond every in-range value
        if d == d and d not in (float('inf'), float('-inf')):
            fr = Fraction(d)
            return f"IEFRAC({fr.numerator},{fr.denominator})"
        if d == float('inf'): return "IE_POSINF"
        if d == float('-inf'): return "IE_NEGINF"
        return "ie_badconst()"
    if tok.startswith('0x'):
        body = tok[2:]
        if body[0] in 'KMLHR': raise SyntaxError("long double const")
        bits = int(body, 16)
        d = struct.unpack('<d', struct.pack('<Q', bits))[0]
    else:
        d = float(tok)
    if d != d: return '(0.0/0.0)' if ty.k == 'double' else '(0.0f/0.0f)'
    if d in (float('inf'), float('-inf')):
        return ('-' if d < 0 else '') + ('(1.0/0.0)' if ty.k == 'double' else '(1.0f/0.0f)')
    h = d.hex()
    return h + ('f' if ty.k == 'float' else '')

INTRIN_SKIP = ('llvm.lifetime.', 'llvm.dbg.', 'llvm.assume', 'llvm.experimental.noalias', 'llvm.prefetch')
MATH1 = {'fabs': 'fabs', 'sqrt': 'sqrt', 'floor': 'floor', 'ceil': 'ceil', 'trunc': 'trunc', 'rint': 'rint',
         'nearbyint': 'nearbyint', 'round': 'round', 'cos': 'cos', 'sin': 'sin', 'exp2': 'exp2', 'log2': 'log2',
         'exp': 'exp', 'log': 'log'}
MATH2 = {'copysign': 'copysign', 'minnum': 'fmin', 'maxnum': 'fmax', 'pow': 'pow'}

class FnTrans:
    def __init__(s, mod, em, name, fn):
        s.m, s.em, s.name, s.fn = mod, em, name, fn
        s.vars = {}   # local name -> ctype
        s.vtypes = {} # local name -> T
        s.out = []
        s.allocas = []
    def lname(s, n):
        return 'v' + san(n) if n[0].isdigit() else 'v_' + san(n)
    def gname(s, n):
        return s.em.rename.get(n, san(n))
    # ---- operand parsing: returns (cexpr, type)
    def value(s, lx, ty):
        k, v = lx.next()
        if k == 'lid':
            return s.lname(unq(v))
        if k == 'gid':
            n = unq(v)
            if n in s.m.funcs: return s.gname(n)
            return '(&' + s.gname(n) + ')'
        if k == 'num':
            if isinstance(ty, Flt): return fconst(v, ty)
            if isinstance(ty, Int):
                x = int(v, 0) if not v.startswith('-') else int(v)
                x &= (1 << ty.n) - 1
                if ty.n > 64: return f"((unsigned __int128){x >> 64}ULL << 64 | {x & (2**64-1)}ULL)"
                return f"{x}U" + ('LL' if ty.n > 32 else '')
            raise SyntaxError(f"num for {ty}")
        if k == 'word':
            if v in ('null',): return f"(({s.em.ctype(ty)})0)"
            if v in ('undef', 'poison', 'zeroinitializer'):
                if isinstance(ty, (Struct, Arr)): return f"(({s.em.ctype(ty)}){{0}})"
                return f"(({s.em.ctype(ty)})0)"
            if v == 'true': return '1U'
            if v == 'false': return '0U'
            if v in ('getelementptr', 'bitcast', 'inttoptr', 'ptrtoint', 'add', 'sub', 'trunc', 'zext', 'sext'):
                return s.constexpr(v, lx, ty)
        if v == '{' or v == '[' or v == '<' or (k == 'str'):
            raise SyntaxError("aggregate constant operand in function body")
        raise SyntaxError(f"value? {k} {v}")
    def tvalue(s, lx):
        ty = s.m.ptype(lx)
        while lx.peek()[0] == 'word' and (lx.peek()[1] in PARAM_ATTRS or lx.peek()[1] in ('align', 'dereferenceable', 'dereferenceable_or_null', 'byval', 'sret')):
            w = lx.next()[1]
            if w == 'align': lx.next()
            if w.startswith('dereferenceable'):
                lx.expect('('); lx.next(); lx.expect(')')
            if w in ('byval', 'sret'):
                lx.expect('('); s.m.ptype(lx); lx.expect(')')
        if isinstance(ty, Meta):
            lx.next(); return '0', ty
        return s.value(lx, ty), ty
    def constexpr(s, op, lx, ty):
        if op == 'getelementptr':
            lx.accept('inbounds')
            lx.expect('(')
            bt = s.m.ptype(lx); lx.expect(',')
            base, pty = s.tvalue(lx)
            idx = []
            while lx.accept(','):
                lx.accept('inrange')
                idx.append(s.tvalue(lx))
            lx.expect(')')
            return s.gep(bt, base, idx)[0]
        if op in ('bitcast', 'inttoptr', 'ptrtoint', 'trunc', 'zext', 'sext'):
            lx.expect('(')
            v, fty = s.tvalue(lx); lx.expect('to'); tty = s.m.ptype(lx); lx.expect(')')
            return s.cast(op, v, fty, tty)
        if op in ('add', 'sub'):
            while lx.peek()[1] in ('nsw', 'nuw'): lx.next()
            lx.expect('(')
            a, ta = s.tvalue(lx); lx.expect(','); b, tb = s.tvalue(lx); lx.expect(')')
            return f"(({s.em.ctype(ta)})({a} {'+' if op == 'add' else '-'} {b}))"
        raise SyntaxError(op)
    def gep(s, bt, base, idx):
        e = base
        cur = bt
        first = True
        for (iv, ity) in idx:
            if first:
                si = f"({sint(width(ity))}){iv}"
                e = f"{e}[{si}]"
                first = False
            elif isinstance(cur, Struct):
                k = int(iv.rstrip('UL'))
                e = f"{e}.f{k}"
                cur = cur.fields[k]
            elif isinstance(cur, Arr):
                si = f"({sint(width(ity))}){iv}"
                e = f"{e}.a[{si}]"
                cur = cur.el
            else:
                raise SyntaxError(f"gep into {cur}")
        return f"(&{e})", Ptr(cur)
    def cast(s, op, v, fty, tty):
        ct = s.em.ctype(tty)
        if op == 'bitcast':
            if isinstance(fty, Ptr) and isinstance(tty, Ptr): return f"(({ct}){v})"
            if MODEL == 'ie' and (isinstance(fty, Flt) or isinstance(tty, Flt)): return f"ie_badcast({v})"
            if isinstance(fty, Int) and isinstance(tty, Flt): return f"bc_i{fty.n}_f({v})"
            if isinstance(fty, Flt) and isinstance(tty, Int): return f"bc_f_i{tty.n}({v})"
            raise SyntaxError(f"bitcast {fty} {tty}")
        if op == 'trunc':
            m = (1 << tty.n) - 1
            return f"(({ct})({v} & {m}ULL))" if tty.n not in (8, 16, 32, 64) else f"(({ct}){v})"
        if op == 'zext': return f"(({ct}){v})"
        if op == 'sext':
            if fty.n == 1: return f"(({ct})(-({sint(width(tty))})({v} & 1)))"
            return f"(({ct})({sint(width(tty))})({sint(width(fty))}){v})"
        if MODEL == 'ie':
            if op in ('fptoui', 'fptosi'): return f"(({ct})({sint(width(tty))})ie_toint({v}))"
            if op == 'uitofp': return f"ie_fromint((int64_t){v})"
            if op == 'sitofp': return f"ie_fromint((int64_t)({sint(width(fty))}){v})"
            if op in ('fpext', 'fptrunc'): return f"({v})"
        if op in ('fptoui',): return f"(({ct}){v})"
        if op in ('fptosi',): return f"(({ct})({sint(width(tty))}){v})"
        if op == 'uitofp': return f"(({ct}){v})"
        if op == 'sitofp': return f"(({ct})({sint(width(fty))}){v})"
        if op in ('fpext', 'fptrunc'): return f"(({ct}){v})"
        if op == 'ptrtoint': return f"(({ct})(uintptr_t){v})"
        if op == 'inttoptr': return f"(({ct})(uintptr_t){v})"
        raise SyntaxError(op)
    def size_is_multiple(s, szarg, sz):
        """is the (symbolic) allocation size syntactically k * sizeof(element)?  looks at the defining mul/shl of the operand"""
        d = s.sizedefs.get(szarg)
        if not d: return False
        op, k = d
        if op == 'mul': return k % sz == 0
        if op == 'shl': return (1 << k) % sz == 0
        return False
    def define(s, name, ty):
        n = s.lname(name)
        s.vars[n] = s.em.ctype(ty)
        s.vtypes[n] = ty
        return n

    # ---- instruction translation
    def instr(s, line, phis_of, cur_bb):
        lx = Lexer(line)
        dst = None
        if lx.peek()[0] == 'lid' and lx.peek(1)[1] == '=':
            dst = unq(lx.next()[1]); lx.next()
        k, op = lx.next()
        O = s.out.append
        def setv(ty, expr):
            n = s.define(dst, ty)
            O(f"  {n} = {expr};")
        BIN = {'add': '+', 'sub': '-', 'mul': '*', 'and': '&', 'or': '|', 'xor': '^', 'shl': '<<', 'lshr': '>>',
               'udiv': '/', 'urem': '%'}
        if op in BIN or op in ('sdiv', 'srem', 'ashr'):
            flags = []
            while lx.peek()[1] in ('nsw', 'nuw', 'exact'): flags.append(lx.next()[1])
            ty = s.m.ptype(lx); a = s.value(lx, ty); lx.expect(','); b = s.value(lx, ty)
            ct = s.em.ctype(ty); w = width(ty); st = sint(w)
            if op in BIN:
                if 'nsw' in flags and op in ('add', 'sub', 'mul') and ty.n == w:
                    e = f"({ct})(({st}){a} {BIN[op]} ({st}){b})"
                else:
                    e = f"({ct})({a} {BIN[op]} {b})"
            elif op == 'sdiv': e = f"({ct})(({st}){a} / ({st}){b})"
            elif op == 'srem': e = f"({ct})(({st}){a} % ({st}){b})"
            elif op == 'ashr': e = f"({ct})(({st}){a} >> {b})"
            if ty.n != w: e = f"({e} & {(1 << ty.n) - 1}ULL)"
            setv(ty, e); return
        if op in ('fadd', 'fsub', 'fmul', 'fdiv', 'frem'):
            while lx.peek()[0] == 'word' and lx.peek()[1] in ('fast', 'nnan', 'ninf', 'nsz', 'arcp', 'contract', 'afn', 'reassoc'): lx.next()
            ty = s.m.ptype(lx); a = s.value(lx, ty); lx.expect(','); b = s.value(lx, ty)
            if MODEL == 'ie':
                fa = re.match(r'IEFRAC\((-?\d+),(\d+)\)$', a); fb = re.match(r'IEFRAC\((-?\d+),(\d+)\)$', b)
                if op == 'fmul' and (fa or fb) and not (fa and fb):
                    fr = fa or fb; other = b if fa else a
                    setv(ty, f"ie_mulfrac({other}, {fr.group(1)}LL, {fr.group(2)}LL)")
                elif op == 'fdiv' and fb and not fa:
                    setv(ty, f"ie_mulfrac({a}, {fb.group(2)}LL, {fb.group(1)}LL)")
                elif fa or fb:
                    setv(ty, f"ie_badconst()")
                else:
                    setv(ty, f"ie_{op[1:]}({a}, {b})")
                return
            if op == 'fdiv' and s.em.rename.get('__fdiv'): setv(ty, f"{s.em.rename['__fdiv']}({a}, {b})"); return
            if op == 'frem': setv(ty, f"fmod({a}, {b})")
            else: setv(ty, f"{a} {dict(fadd='+', fsub='-', fmul='*', fdiv='/')[op]} {b}")
            return
        if op == 'fneg':
            while lx.peek()[0] == 'word' and lx.peek()[1] in ('fast', 'nnan', 'ninf', 'nsz', 'arcp', 'contract', 'afn', 'reassoc'): lx.next()
            ty = s.m.ptype(lx); a = s.value(lx, ty)
            setv(ty, f"ie_sub((IE_T)0, {a})" if MODEL == 'ie' else f"-{a}"); return
        if op == 'icmp':
            pred = lx.next()[1]; ty = s.m.ptype(lx); a = s.value(lx, ty); lx.expect(','); b = s.value(lx, ty)
            if isinstance(ty, Ptr):
                a, b = f"(uintptr_t){a}", f"(uintptr_t){b}"; st = 'intptr_t'
            else:
                st = sint(width(ty))
                if ty.n != width(ty) and pred[0] == 's':
                    sh = width(ty) - ty.n
                    a = f"(({st})({a} << {sh}))"; b = f"(({st})({b} << {sh}))"
            cop = {'eq': '==', 'ne': '!=', 'ugt': '>', 'uge': '>=', 'ult': '<', 'ule': '<=',
                   'sgt': '>', 'sge': '>=', 'slt': '<', 'sle': '<='}[pred]
            if pred[0] == 's' and pred not in ('eq',):
                setv(Int(1), f"(({st}){a} {cop} ({st}){b})")
            else:
                setv(Int(1), f"({a} {cop} {b})")
            return
        if op == 'fcmp':
            while lx.peek()[0] == 'word' and lx.peek()[1] in ('fast', 'nnan', 'ninf', 'nsz', 'arcp', 'contract', 'afn', 'reassoc'): lx.next()
            pred = lx.next()[1]; ty = s.m.ptype(lx); a = s.value(lx, ty); lx.expect(','); b = s.value(lx, ty)
            if MODEL == 'ie':
                fa = re.match(r'IEFRAC\((-?\d+),(\d+)\)$', a)
                if fa and not re.match(r'IEFRAC', b):   # constant on the left: swap
                    a, b = b, a
                    pred = {'ogt': 'olt', 'oge': 'ole', 'olt': 'ogt', 'ole': 'oge', 'ugt': 'ult', 'uge': 'ule', 'ult': 'ugt', 'ule': 'uge'}.get(pred, pred)
                fb = re.match(r'IEFRAC\((-?\d+),(\d+)\)$', b)
                if fb:
                    num, den = int(fb.group(1)), int(fb.group(2)); fl = num // den; ce = -((-num) // den)
                    if pred in ('oge', 'uge'): b = f"((IE_T){ce})"
                    elif pred in ('ogt', 'ugt'): b = f"((IE_T){fl})"
                    elif pred in ('ole', 'ule'): b = f"((IE_T){fl})"
                    elif pred in ('olt', 'ult'): b = f"((IE_T){ce})"
                    elif pred in ('oeq', 'ueq'): a, b = "((IE_T)0)", "((IE_T)1)"
                    elif pred in ('one', 'une'): a, b = "((IE_T)0)", "((IE_T)1)"
                # no NaN in the integer-exact model: ord is true, uno is false
                if pred == 'ord': setv(Int(1), '1U'); return
                if pred == 'uno': setv(Int(1), '0U'); return
            E = {'oeq': f"({a} == {b})", 'ogt': f"({a} > {b})", 'oge': f"({a} >= {b})", 'olt': f"({a} < {b})",
                 'ole': f"({a} <= {b})", 'one': f"({a} < {b} || {a} > {b})", 'ord': f"({a} == {a} && {b} == {b})",
                 'uno': f"({a} != {a} || {b} != {b})", 'ueq': f"(!({a} < {b} || {a} > {b}))", 'ugt': f"(!({a} <= {b}))",
                 'uge': f"(!({a} < {b}))", 'ult': f"(!({a} >= {b}))", 'ule': f"(!({a} > {b}))", 'une': f"({a} != {b})",
                 'true': '1', 'false': '0'}[pred]
            setv(Int(1), E); return
        if op in ('trunc', 'zext', 'sext', 'fptoui', 'fptosi', 'uitofp', 'sitofp', 'fpext', 'fptrunc', 'ptrtoint',
                  'inttoptr', 'bitcast', 'addrspacecast'):
            v, fty = s.tvalue(lx); lx.expect('to'); tty = s.m.ptype(lx)
            setv(tty, s.cast(op, v, fty, tty)); return
        if op == 'select':
            while lx.peek()[0] == 'word' and lx.peek()[1] in ('fast', 'nnan', 'ninf', 'nsz', 'arcp', 'contract', 'afn', 'reassoc'): lx.next()
            c, _ = s.tvalue(lx); lx.expect(','); a, ty = s.tvalue(lx); lx.expect(','); b, _ = s.tvalue(lx)
            setv(ty, f"({c} & 1) ? {a} : {b}"); return
        if op == 'alloca':
            lx.accept('inalloca')
            ty = s.m.ptype(lx)
            cnt = None
            if lx.accept(','):
                if lx.peek()[1] != 'align':
                    cnt, _ = s.tvalue(lx)
            n = s.define(dst, Ptr(ty))
            sn = n + '_slot'
            if cnt is None:
                s.allocas.append(f"  {s.em.ctype(ty)} {sn};")
                O(f"  {n} = &{sn};")
            else:
                O(f"  {n} = ({s.em.ctype(Ptr(ty))})__builtin_alloca(sizeof({s.em.ctype(ty)}) * {cnt});")
            return
        if op == 'load':
            lx.accept('atomic'); lx.accept('volatile')
            ty = s.m.ptype(lx); lx.expect(','); p, _ = s.tvalue(lx)
            setv(ty, f"*{p}"); return
        if op == 'store':
            lx.accept('atomic'); lx.accept('volatile')
            v, ty = s.tvalue(lx); lx.expect(','); p, _ = s.tvalue(lx)
            O(f"  *{p} = {v};"); return
        if op == 'getelementptr':
            lx.accept('inbounds')
            bt = s.m.ptype(lx); lx.expect(',')
            base, pty = s.tvalue(lx)
            idx = []
            while lx.accept(','):
                idx.append(s.tvalue(lx))
            e, rty = s.gep(bt, base, idx)
            setv(rty, e); return
        if op == 'extractvalue':
            v, ty = s.tvalue(lx); cur = ty; e = v
            while lx.accept(','):
                k = int(lx.next()[1])
                if isinstance(cur, Struct): e += f".f{k}"; cur = cur.fields[k]
                else: e += f".a[{k}]"; cur = cur.el
            setv(cur, e); return
        if op == 'insertvalue':
            v, ty = s.tvalue(lx); lx.expect(','); x, xty = s.tvalue(lx)
            n = s.define(dst, ty); O(f"  {n} = {v};")
            cur = ty; e = n
            while lx.accept(','):
                k = int(lx.next()[1])
                if isinstance(cur, Struct): e += f".f{k}"; cur = cur.fields[k]
                else: e += f".a[{k}]"; cur = cur.el
            O(f"  {e} = {x};"); return
        if op == 'phi':
            ty = s.m.ptype(lx)
            s.define(dst, ty)
            inc = []
            while True:
                lx.expect('['); v = s.value(lx, ty); lx.expect(','); bb = unq(lx.next()[1]); lx.expect(']')
                inc.append((v, bb))
                if not lx.accept(','): break
            phis_of.setdefault(cur_bb, []).append((s.lname(dst), s.em.ctype(ty), inc))
            return
        if op == 'freeze':
            v, ty = s.tvalue(lx); setv(ty, v); return
        if op in ('call', 'tail', 'musttail', 'notail'):
            if op != 'call': lx.expect('call')
            while lx.peek()[0] == 'word' and lx.peek()[1] in ('fast', 'nnan', 'ninf', 'nsz', 'arcp', 'contract', 'afn', 'reassoc', 'fastcc', 'ccc'): lx.next()
            while lx.peek()[0] == 'word' and lx.peek()[1] in PARAM_ATTRS or lx.peek()[1] in ('align', 'dereferenceable', 'dereferenceable_or_null'):
                w = lx.next()[1]
                if w == 'align': lx.next()
                if w.startswith('dereferenceable'):
                    lx.expect('('); lx.next(); lx.expect(')')
            rty = s.m.ptype(lx)
            if isinstance(rty, Func): rty = rty.ret
            if isinstance(rty, Ptr) and isinstance(rty.to, Func) and lx.peek()[1] != '(':
                # "call void (i8*, ...)* @f(...)" form
                rty = rty.to.ret
            k2, callee = lx.next()
            if k2 == 'gid': cname = unq(callee); direct = True
            elif k2 == 'lid': cname = s.lname(unq(callee)); direct = False
            elif k2 == 'word' and callee == 'bitcast':
                lx.expect('('); inner, fty = s.tvalue(lx); lx.expect('to'); tty = s.m.ptype(lx); lx.expect(')')
                cname = f"(({s.em.ctype(tty)}){inner})"; direct = False
            else: raise SyntaxError("callee " + callee)
            lx.expect('(')
            args = []
            if not lx.accept(')'):
                while True:
                    args.append(s.tvalue(lx))
                    if lx.accept(')'): break
                    lx.expect(',')
            s.call(dst, rty, cname, direct, args); return
        if op == 'ret':
            ty = s.m.ptype(lx)
            if isinstance(ty, Void): O("  return;")
            else: O(f"  return {s.value(lx, ty)};")
            return
        if op == 'br':
            if lx.peek()[1] == 'label':
                lx.next(); tgt = unq(lx.next()[1])
                O(('br', cur_bb, None, tgt, None)); return
            c, _ = s.tvalue(lx); lx.expect(','); lx.expect('label'); t1 = unq(lx.next()[1]); lx.expect(',')
            lx.expect('label'); t2 = unq(lx.next()[1])
            O(('br', cur_bb, c, t1, t2)); return
        if op == 'switch':
            v, ty = s.tvalue(lx); lx.expect(','); lx.expect('label'); dflt = unq(lx.next()[1]); lx.expect('[')
            cases = []
            while not lx.accept(']'):
                cty = s.m.ptype(lx); cv = s.value(lx, cty); lx.expect(','); lx.expect('label'); cases.append((cv, unq(lx.next()[1])))
            O(('switch', cur_bb, v, dflt, cases)); return
        if op == 'unreachable':
            O("  IR_UNREACHABLE();"); return
        raise SyntaxError("unhandled op " + op + " :: " + line)

    def call(s, dst, rty, cname, direct, args):
        O = s.out.append
        av = [a for a, _ in args]
        def ret(expr):
            if dst is not None and not isinstance(rty, Void):
                n = s.define(dst, rty); O(f"  {n} = {expr};")
            else:
                O(f"  {expr};")
        if direct and cname.startswith('llvm.'):
            if cname.startswith(INTRIN_SKIP): return
            base = cname.split('.')[1]
            if base == 'memcpy': O(f"  ir_memcpy((void*){av[0]}, (const void*){av[1]}, {av[2]});"); return
            if base == 'memmove': O(f"  ir_memmove((void*){av[0]}, (const void*){av[1]}, {av[2]});"); return
            if base == 'memset': O(f"  memset((void*){av[0]}, (int){av[1]}, {av[2]});"); return
            if base in MATH1 and MODEL == 'ie': ret(f"ie_{base}({av[0]})"); return
            if base == 'fmuladd' and MODEL == 'ie': ret(f"ie_add(ie_mul({av[0]}, {av[1]}), {av[2]})"); return
            if base in MATH2 and MODEL == 'ie': ret(f"ie_{MATH2[base]}({av[0]}, {av[1]})"); return
            if base in MATH1: ret(f"{s.em.rename.get(MATH1[base], MATH1[base])}{'f' if rty.k == 'float' else ''}({av[0]})"); return
            if base in MATH2: ret(f"{s.em.rename.get(MATH2[base], MATH2[base])}{'f' if rty.k == 'float' else ''}({av[0]}, {av[1]})"); return
            if base == 'fmuladd': ret(f"({av[0]} * {av[1]} + {av[2]})"); return
            if base in ('umax', 'umin'): ret(f"({av[0]} {'>' if base == 'umax' else '<'} {av[1]} ? {av[0]} : {av[1]})"); return
            if base in ('smax', 'smin'):
                st = sint(width(rty)); ret(f"(({st}){av[0]} {'>' if base == 'smax' else '<'} ({st}){av[1]} ? {av[0]} : {av[1]})"); return
            if base == 'abs':
                st = sint(width(rty)); ret(f"(({s.em.ctype(rty)})((({st}){av[0]}) < 0 ? -({st}){av[0]} : ({st}){av[0]}))"); return
            if base == 'bswap': ret(f"__builtin_bswap{rty.n}({av[0]})"); return
            if base in ('lround', 'llround'): ret(f"(({s.em.ctype(rty)}){'ie_llround' if MODEL == 'ie' else s.em.rename.get('llround', 'llround')}({av[0]}))"); return
            if base == 'trap': O("  IR_TRAP();"); return
            if base in ('fshl', 'fshr'):
                w = rty.n; a, b, c = av
                if base == 'fshl': ret(f"(({s.em.ctype(rty)})((({c}%{w})==0)?{a}:(({a} << ({c}%{w})) | ({b} >> ({w}-({c}%{w}))))))")
                else: ret(f"(({s.em.ctype(rty)})((({c}%{w})==0)?{b}:(({a} << ({w}-({c}%{w}))) | ({b} >> ({c}%{w})))))")
                return
            raise SyntaxError("intrinsic " + cname)
        # gdstk's allocator wrappers (separate functions in the -fno-inline module) are treated as the libc calls they forward to
        if direct and cname in GDSTK_ALLOC and dst is not None and dst in s.alloc_types:
            cname = GDSTK_ALLOC[cname]
            if cname == 'calloc': av = ['1ULL'] + av
        if direct and cname in ('malloc', 'calloc', 'realloc') and dst is not None and dst in s.alloc_types:
            et = s.alloc_types[dst]; ct = s.em.ctype(et); sz = size_of(et)
            szarg = av[-1]
            mm = re.fullmatch(r'(\d+)ULL?', szarg)
            if mm and int(mm.group(1)) % sz == 0 and int(mm.group(1)) > 0:
                k = int(mm.group(1)) // sz
                szx = f"sizeof({ct}) * {k}ULL" if k != 1 else f"sizeof({ct})"
                ok = True
            elif not mm and not s.size_is_multiple(szarg, sz):
                ok = False          # e.g. a string buffer that is merely cast to T* (stored in an Array<T*>): keep it untyped
            elif not mm:
                O(f"  IR_ASSERT(({szarg}) % {sz}ULL == 0, \"typed allocation: size multiple of element\");")
                szx = f"sizeof({ct}) * (({szarg}) / {sz}ULL)"
                ok = True
            else:
                ok = False
            if ok:
                s.em.used.add(cname)
                if cname == 'malloc': e = f"malloc({szx})"
                elif cname == 'calloc': e = f"calloc({av[0]}, {szx})"
                else: e = f"realloc((void*){av[0]}, {szx})"
                ret(f"({s.em.ctype(rty)}){e}"); return
        if direct:
            f = s.m.funcs.get(cname)
            target = s.gname(cname)
            if MODEL == 'ie' and cname in LIBM and cname not in s.em.rename: target = 'ie_' + cname
            if (s.name, cname) in s.em.callrename: target = s.em.callrename[(s.name, cname)]; f = None
            else:
                for (cp, kp), new in s.em.callrename.items():
                    if cp.endswith('*') and kp.endswith('*') and s.name.startswith(cp[:-1]) and cname.startswith(kp[:-1]): target = new; f = None; break
            if f and not f.get('vararg') and len(f['params']) == len(args):
                # cast args to declared param types (pointer type mismatches are legal in IR via bitcast, be defensive)
                av = [f"({s.em.ctype(pt)}){a}" if isinstance(pt, Ptr) else a for a, (pt, _) in zip(av, f['params'])]
            s.em.used.add(cname)
        else:
            target = cname
        e = f"{target}({', '.join(av)})"
        if dst is not None and not isinstance(rty, Void) and isinstance(rty, Ptr): e = f"({s.em.ctype(rty)}){e}"
        ret(e)

    def run(s):
        fn = s.fn
        phis_of = {}
        blocks = fn['blocks']
        if s.em.shrink:
            for (frm, to, fns) in s.em.shrink:
                if fns and s.name not in fns: continue
                blocks = [(bb, [re.sub(r'\[%d x i8\]' % frm, '[%d x i8]' % to, re.sub(r'\bi64 %d\b' % frm, 'i64 %d' % to, l)) for l in ls]) for bb, ls in blocks]
        # Emit the blocks in reverse post-order of the CFG: every textual backward goto is then a genuine loop back edge.
        # (LLVM's layout may put a loop latch before an inner loop; CBMC identifies loops by backward jumps and mis-unwinds
        #  a jump from a later block into the middle of an earlier region - seen as a spurious unwinding-assertion failure.)
        if len(blocks) > 2:
            names = [bb for bb, _ in blocks]; idx = {bb: i for i, bb in enumerate(names)}
            succ = {}
            for bb, ls in blocks:
                term = ls[-1] if ls else ''
                succ[bb] = [t.strip('"') for t in re.findall(r'label %((?:"[^"]*"|[-\w$.]+))', term)] if term.startswith(('br ', 'switch ', 'invoke ', 'indirectbr ')) else []
            seen_b = set(); post = []
            stack = [(names[0], iter(succ[names[0]]))]; seen_b.add(names[0])
            while stack:
                node, it = stack[-1]
                nxt = None
                for t in it:
                    if t in idx and t not in seen_b: nxt = t; break
                if nxt is None: post.append(node); stack.pop()
                else: seen_b.add(nxt); stack.append((nxt, iter(succ[nxt])))
            order = post[::-1] + [bb for bb in names if bb not in seen_b]      # unreachable blocks (if any) keep their relative order at the end
            bmap = dict(blocks); blocks = [(bb, bmap[bb]) for bb in order]
        # typed allocation: result of malloc/calloc/realloc whose only non-i8* bitcast goes to T*
        s.alloc_types = {}
        s.sizedefs = {}
        for bb, ls in blocks:
            for l in ls:
                mm = re.match(r'(%[-\w$.]+) = (mul|shl)(?: nuw| nsw)* i64 (%[-\w$.]+|\d+), (%[-\w$.]+|\d+)$', l)
                if mm:
                    c = mm.group(4) if mm.group(4).isdigit() else (mm.group(3) if mm.group(3).isdigit() and mm.group(2) == 'mul' else None)
                    if c is not None: s.sizedefs[s.lname(unq(mm.group(1)))] = (mm.group(2), int(c))
        allocs = {}; alloc_const = {}
        for bb, ls in blocks:
            for l in ls:
                mm = re.match(r'(%[-\w$.]+) = (?:tail )?call .*@(malloc|calloc|realloc|_ZN5gdstk8allocateEm|_ZN5gdstk14allocate_clearEm|_ZN5gdstk10reallocateEPvm)\(', l)
                if mm:
                    allocs[mm.group(1)] = set()
                    mk = re.search(r'\((?:i64 noundef |i64 )(?:1, i64 (?:noundef )?)?(\d+)\)', l[mm.end() - 1:])
                    if mk: alloc_const[mm.group(1)] = int(mk.group(1))
        if allocs:
            for bb, ls in blocks:
                for l in ls:
                    mm = re.match(r'%[-\w$.]+ = bitcast i8\* (%[-\w$.]+) to (.*)\*$', l)
                    if mm and mm.group(1) in allocs: allocs[mm.group(1)].add(mm.group(2))
            # the result is stored, as i8*, into a slot that is really a T* (Array<T>::items seen through an i8** cast): element type T
            slot_types = {}
            for bb, ls in blocks:
                for l in ls:
                    mm = re.match(r'(%[-\w$.]+) = bitcast (.*)\*\* %[-\w$.]+ to i8\*\*$', l)
                    if mm: slot_types[mm.group(1)] = mm.group(2)
            if slot_types:
                for bb, ls in blocks:
                    for l in ls:
                        mm = re.match(r'store i8\* (%[-\w$.]+), i8\*\* (%[-\w$.]+)(?:,|$)', l)
                        if mm and mm.group(1) in allocs and mm.group(2) in slot_types and not allocs[mm.group(1)]: allocs[mm.group(1)].add(slot_types[mm.group(2)])
            for v, tys in allocs.items():
                if len(tys) > 1 and v in alloc_const:
                    # one object of constant size viewed through several pointer types (inlined member copies): the struct type of exactly that size
                    cand = []
                    for ty in tys:
                        try:
                            t = s.m.ptype(Lexer(ty))
                            if isinstance(t, Struct) and size_of(t) == alloc_const[v]: cand.append(ty)
                        except (TypeError, SyntaxError): pass
                    if len(cand) == 1: tys = {cand[0]}
                if len(tys) == 1:
                    try:
                        t = s.m.ptype(Lexer(next(iter(tys))))
                        if isinstance(t, (Struct, Flt, Ptr)) or (isinstance(t, Int) and t.n > 8):
                            size_of(t); s.alloc_types[unq(v)] = t
                    except (TypeError, SyntaxError):
                        pass
        for bb, lines in blocks:
            s.out.append(('label', bb))
            for ln in lines:
                s.instr(ln, phis_of, bb)
        # emit
        em = s.em
        ps = ', '.join(f"{em.ctype(t)} {s.lname(n)}" for t, n in fn['params']) or 'void'
        res = [f"{em.ctype(fn['ret'])} {s.gname(s.name)}({ps}) {{"]
        pnames = {s.lname(n) for _, n in fn['params']}
        for n, ct in s.vars.items():
            if n not in pnames: res.append(f"  {ct} {n};")
        res += s.allocas
        def edge(frm, to, ind):
            ph = phis_of.get(to, [])
            lines = []
            sel = []
            for (n, ct, inc) in ph:
                vs = [v for v, b in inc if b == frm]
                if not vs: raise SyntaxError(f"phi {n} no incoming from {frm}")
                sel.append((n, ct, vs[0]))
            if len(sel) == 1:
                lines.append(f"{ind}{sel[0][0]} = {sel[0][2]};")
            elif sel:
                lines.append(ind + '{ ' + ' '.join(f"{ct} t_{n} = {v};" for n, ct, v in sel) + ' ' +
                             ' '.join(f"{n} = t_{n};" for n, ct, v in sel) + ' }')
            lines.append(f"{ind}goto bb_{san(to)};")
            return lines
        for o in s.out:
            if isinstance(o, str): res.append(o); continue
            if o[0] == 'label':
                res.append(f"bb_{san(o[1])}: ;")
            elif o[0] == 'br':
                _, frm, c, t1, t2 = o
                if c is None: res += edge(frm, t1, '  ')
                else:
                    res.append(f"  if ({c} & 1) {{"); res += edge(frm, t1, '    ')
                    res.append("  } else {"); res += edge(frm, t2, '    '); res.append("  }")
            elif o[0] == 'switch':
                _, frm, v, dflt, cases = o
                res.append(f"  switch ({v}) {{")
                for cv, tgt in cases:
                    res.append(f"    case {cv}: {{"); res += edge(frm, tgt, '      '); res.append("    }")
                res.append("    default: {"); res += edge(frm, dflt, '      '); res.append("    }")
                res.append("  }")
        res.append("}")
        return '\n'.join(res)

# ---------------------------------------------------------------- module parsing
def parse_module(text):
    m = Module()
    lines = text.split('\n')
    i = 0
    # first pass: struct type names so forward references resolve
    for ln in lines:
        mm = re.match(r'^(%(?:"[^"]*"|[-\w$.]+)) = type (.*)$', ln)
        if mm:
            n = unq(mm.group(1))
            m.structs.setdefault(n, Struct(name=n))
    while i < len(lines):
        ln = lines[i]
        mm = re.match(r'^(%(?:"[^"]*"|[-\w$.]+)) = type (.*)$', ln)
        if mm:
            n = unq(mm.group(1))
            lx = Lexer(mm.group(2))
            t = m.ptype(lx)
            st = m.structs[n]
            st.fields, st.packed, st.opaque = t.fields, t.packed, t.opaque
            i += 1; continue
        if ln.startswith('@'):
            mm = re.match(r'^(@(?:"[^"]*"|[-\w$.]+)) = (.*)$', ln)
            m.globals[unq(mm.group(1))] = mm.group(2)
            m.order.append(('g', unq(mm.group(1))))
            i += 1; continue
        if ln.startswith('declare ') or ln.startswith('define '):
            isdef = ln.startswith('define ')
            hdr = ln
            lx = Lexer(re.sub(r'\s(#\d+|!dbg.*|personality.*)?\s*\{?\s*$', '', hdr.split(' ', 1)[1]))
            # skip linkage etc. until type
            SKIP = {'dso_local', 'linkonce_odr', 'internal', 'private', 'weak_odr', 'weak', 'available_externally', 'hidden',
                    'local_unnamed_addr', 'unnamed_addr', 'noalias', 'noundef', 'nonnull', 'zeroext', 'signext', 'fastcc',
                    'external', 'common', 'protected', 'default', 'inreg'}
            while lx.peek()[0] == 'word' and (lx.peek()[1] in SKIP or lx.peek()[1] in ('align', 'dereferenceable', 'dereferenceable_or_null')):
                w = lx.next()[1]
                if w == 'align': lx.next()
                if w.startswith('dereferenceable'): lx.expect('('); lx.next(); lx.expect(')')
            ret = m.ptype(lx)
            name = unq(lx.next()[1])
            lx.expect('(')
            params = []; va = False; k = 0; byval = set()
            if not lx.accept(')'):
                while True:
                    if lx.accept('...'): va = True
                    else:
                        pt = m.ptype(lx)
                        while lx.peek()[0] == 'word' and (lx.peek()[1] in PARAM_ATTRS or lx.peek()[1] in ('align', 'dereferenceable', 'dereferenceable_or_null', 'sret', 'byval')):
                            w = lx.next()[1]
                            if w == 'byval': byval.add(k)
                            if w == 'align': lx.next()
                            if w.startswith('dereferenceable') or w in ('sret', 'byval'):
                                lx.expect('(')
                                if w in ('sret', 'byval'): m.ptype(lx)
                                else: lx.next()
                                lx.expect(')')
                        pn = unq(lx.next()[1]) if lx.peek()[0] == 'lid' else str(k)
                        params.append((pt, pn)); k += 1
                    if lx.accept(')'): break
                    lx.expect(',')
            f = dict(ret=ret, params=params, vararg=va, blocks=None, byval=byval)
            if isdef:
                blocks = []
                cur = (str(len(params)) if True else None, [])
                i += 1
                first = True
                while lines[i] != '}':
                    l = lines[i]
                    lm = re.match(r'^((?:"[^"]*"|[-\w$.]+)):', l)
                    if lm:
                        if cur[1] or not first: blocks.append(cur)
                        nm = lm.group(1)
                        if nm.startswith('"'): nm = nm[1:-1]
                        cur = (nm, [])
                    elif l.strip() and not l.strip().startswith(';'):
                        # strip metadata suffixes
                        if l.strip().startswith('switch ') and ']' not in l:
                            while ']' not in lines[i]:
                                i += 1; l += ' ' + lines[i].strip()
                        l2 = re.sub(r',\s*!\w+ !\d+', '', l.strip())
                        l2 = re.sub(r'\s+#\d+$', '', l2)
                        cur[1].append(l2)
                    first = False
                    i += 1
                blocks.append(cur)
                f['blocks'] = blocks
            if name not in m.funcs or isdef: m.funcs[name] = f
            if isdef: m.order.append(('f', name))
            i += 1; continue
        i += 1
    return m

GDSTK_ALLOC = {'_ZN5gdstk8allocateEm': 'malloc', '_ZN5gdstk14allocate_clearEm': 'calloc', '_ZN5gdstk10reallocateEPvm': 'realloc'}
LIBM = {'fabs', 'sqrt', 'floor', 'ceil', 'trunc', 'cos', 'sin', 'tan', 'acos', 'asin', 'atan', 'atan2', 'exp2', 'log2', 'pow',
        'fmod', 'llround', 'lround', 'round', 'exp', 'log', 'hypot', 'log10', 'cbrt', 'fmin', 'fmax'}
KNOWN_LIBC = {'malloc', 'calloc', 'realloc', 'free', 'memcpy', 'memmove', 'memset', 'memcmp', 'strlen', 'strcmp', 'strncmp',
              'strcpy', 'fabs', 'sqrt', 'floor', 'ceil', 'trunc', 'cos', 'sin', 'tan', 'acos', 'asin', 'atan', 'atan2', 'exp2', 'log2', 'pow',
              'fmod', 'llround', 'lround', 'round', 'exp', 'log', 'hypot', 'abort'}

def const_init(m, em, ft, ty, lx):
    """parse a constant initializer of type ty from lexer, return C initializer text"""
    k, v = lx.peek()
    if v == 'zeroinitializer' or v == 'undef': lx.next(); return '{0}' if isinstance(ty, (Struct, Arr)) else '0'
    if isinstance(ty, Arr):
        if k == 'str':
            lx.next()
            raw = v[2:-1]
            bs = []
            j = 0
            while j < len(raw):
                if raw[j] == '\\': bs.append(int(raw[j+1:j+3], 16)); j += 3
                else: bs.append(ord(raw[j])); j += 1
            return '{{' + ','.join(map(str, bs)) + '}}'
        lx.expect('[')
        items = []
        while True:
            ety = m.ptype(lx); items.append(const_init(m, em, ft, ety, lx))
            if lx.accept(']'): break
            lx.expect(',')
        return '{{' + ','.join(items) + '}}'
    if isinstance(ty, Struct):
        packed = lx.accept('<')
        lx.expect('{')
        items = []
        if not lx.accept('}'):
            while True:
                ety = m.ptype(lx); items.append(const_init(m, em, ft, ety, lx))
                if lx.accept('}'): break
                lx.expect(',')
        if packed: lx.expect('>')
        return '{' + ','.join(items) + '}'
    return ft.value(lx, ty)

def translate(text, roots=None, rename=None, stubs=(), model='bit', shrink=(), decls_only=False, callrename=None):
    global MODEL
    MODEL = model
    m = parse_module(text) if isinstance(text, str) else text
    rename = dict(rename or {}); rename.setdefault('bcmp', 'memcmp')
    em = Emit(m, rename)
    em.shrink = list(shrink)
    em.callrename = dict(callrename or {})
    em.used = set()
    # reachability from roots
    defs = [n for k, n in m.order if k == 'f']
    bodies = {}
    pending = list(roots) if roots else list(defs)
    if decls_only: pending += [x for x in stubs if x in m.funcs]      # REAL mode may call the real versions of stubbed functions
    seen = set()
    while pending:
        n = pending.pop()
        if decls_only:
            if n in m.funcs: seen.add(n); bodies[n] = ''
            continue
        if n in seen or n not in m.funcs or m.funcs[n]['blocks'] is None: continue
        if n in stubs:
            em.used.add(n); seen.add(n); bodies[n] = f'/* stubbed: {n} */'; continue
        seen.add(n)
        before = set(em.used)
        ft = FnTrans(m, em, n, m.funcs[n])
        try:
            bodies[n] = ft.run()
        except SyntaxError as e:
            sys.stderr.write(f"UNSUPPORTED {n}: {e}\n")
            f = m.funcs[n]
            ps = ', '.join(f"{em.ctype(t)} a{i}" for i, (t, _) in enumerate(f['params'])) or 'void'
            bodies[n] = f"{em.ctype(f['ret'])} {em.rename.get(n, san(n))}({ps}) {{ IR_TRAP(); __builtin_unreachable(); }}"
            continue
        # also function refs used as values (function pointers)
        for g in re.findall(r'@((?:"[^"]*"|[-\w$.]+))', '\n'.join(l for _, ls in m.funcs[n]['blocks'] for l in ls)):
            g = g.strip('"')
            if g in m.funcs: em.used.add(g)
        pending += list(em.used - seen)
    # globals used
    gtext = []
    dummy = FnTrans(m, em, '', dict(params=[], ret=Void(), blocks=[]))
    used_globals = set()
    alltext = '\n'.join(bodies.values())
    changed = True
    ginit = {}
    while changed:
        changed = False
        for g, rest in m.globals.items():
            if g in used_globals: continue
            if re.search(r'\b' + re.escape(em.rename.get(g, san(g))) + r'\b', alltext):
                used_globals.add(g); changed = True
                lx = Lexer(rest)
                while lx.peek()[0] == 'word' and lx.peek()[1] in ('private', 'internal', 'unnamed_addr', 'local_unnamed_addr', 'dso_local', 'external',
                                                                   'linkonce_odr', 'weak_odr', 'hidden', 'constant', 'global', 'common', 'weak', 'thread_local'):
                    lx.next()
                ty = m.ptype(lx)
                init = None
                if not lx.done() and lx.peek()[1] != ',':
                    init = const_init(m, em, dummy, ty, lx)
                ginit[g] = (ty, init, 'external' in rest.split(' = ')[0] or init is None)
                if init: alltext += '\n' + init
    out = ["/* generated by ir2c.py */", "#include <stdint.h>", "#include <stddef.h>", "#include <string.h>", "#include <stdlib.h>", "#include <math.h>",
           '#include "ir2c_ie_rt.h"' if MODEL == 'ie' else '#include "ir2c_rt.h"']
    # struct definitions in dependency order
    body_types = []
    for n in seen:
        pass
    # force ctype of everything to register typedefs
    decls = []
    for n in sorted(em.used | seen):
        if n in KNOWN_LIBC or n.startswith('llvm.') or em.rename.get(n) in KNOWN_LIBC: continue
        f = m.funcs.get(n)
        if not f: continue
        ps = ', '.join(em.ctype(t.to if (decls_only and i in f.get('byval', ())) else t) for i, (t, _) in enumerate(f['params']))
        if f['vararg']: ps = (ps + ', ...') if ps else '...'
        decls.append(f"{em.ctype(f['ret'])} {em.rename.get(n, san(n))}({ps or 'void'});")
    if MODEL == 'ie':
        # libm functions without an exact integer meaning are supplied by the harness (free symbols / contracts): declare them
        for n in sorted(em.used):
            if n in ('cos', 'sin', 'tan', 'acos', 'asin', 'atan', 'atan2', 'sqrt', 'exp2', 'log2', 'pow', 'fmod', 'hypot', 'exp', 'log') and n not in em.rename and n in m.funcs:
                f = m.funcs[n]
                decls.append(f"{em.ctype(f['ret'])} ie_{n}({', '.join(em.ctype(t) for t, _ in f['params'])});")
    gdecls = []
    for g, (ty, init, ext) in ginit.items():
        nm = em.rename.get(g, san(g))
        gdecls.insert(0, f"extern {em.ctype(ty)} {nm};")
        if init and not decls_only: gdecls.append(f"{em.ctype(ty)} {nm} = {init};")
    # named structs: emit forward decls then definitions ordered by by-value dependency
    emitted = []
    state = {}
    def need(t):
        if isinstance(t, Struct) and t.name:
            visit(t)
        elif isinstance(t, Struct):
            for f in t.fields: need(f)
        elif isinstance(t, Arr): need(t.el)
    def visit(st):
        if state.get(st.name) == 2: return
        if state.get(st.name) == 1: return
        state[st.name] = 1
        if st.fields:
            for f in st.fields: need(f)
        state[st.name] = 2
        if st.opaque or st.fields is None:
            emitted.append(f"struct S_{san(st.name)};")
        else:
            body = ' '.join(f"{em.ctype(f)} f{i};" for i, f in enumerate(st.fields)) or 'char dummy;'
            emitted.append(f"struct S_{san(st.name)} {{ {body} }}{' __attribute__((packed))' if st.packed else ''};")
    fwd = [f"struct S_{san(n)};" for n in m.structs]
    for st in m.structs.values(): visit(st)
    # typedefs for anon/arr types must come before named structs that embed them: simple approach = interleave by re-running
    out += fwd
    out += ["/* helper aggregate types */"] + order_typedefs(em.typedefs, emitted)
    # stable aliases for the (numbered, link-order dependent) aggregate types in the signatures of the roots
    argt = []
    for n in list(roots or []) + sorted(stubs):
        f = m.funcs.get(n)
        if not f: continue
        for i, (t, _) in enumerate(f['params']):
            if isinstance(t, Ptr) and isinstance(t.to, (Struct, Arr)) and not (isinstance(t.to, Struct) and t.to.opaque):
                try: argt.append(f"typedef {em.ctype(t.to)} ARGT_{san(n)}_{i};")
                except TypeError: pass
        if isinstance(f['ret'], (Struct, Arr)): argt.append(f"typedef {em.ctype(f['ret'])} RETT_{san(n)};")
    out += argt
    out += decls + gdecls
    if not decls_only:
        for n in seen: out.append(bodies[n])
    translate.last_functions = sorted(n for n in seen if n not in stubs)
    translate.last_stubs = sorted(n for n in seen if n in stubs)
    return '\n'.join(out) + '\n'

def order_typedefs(tds, structs):
    # topological order among all struct definitions by by-value embedding
    items = tds + structs
    name_of = {}
    for it in items:
        mm = re.match(r'(?:struct (\w+) \{|typedef .*\(\*(\w+)\))', it)
        if mm: name_of[it] = mm.group(1) or mm.group(2)
    defs = {name_of[it]: it for it in items if it in name_of}
    outl = []; st = {}
    def v(n):
        if st.get(n): return
        st[n] = 1
        it = defs[n]
        body = it[it.find('{'):] if it.startswith('struct') else it
        for dep in re.findall(r'struct (\w+) f\d+;|struct (\w+) a\[|\b(fp\d+)\b', body):
            d = dep[0] or dep[1] or dep[2]
            if d in defs and d != n: v(d)
        outl.append(it)
    for n in defs: v(n)
    rest = [it for it in items if it not in name_of]
    return rest + outl

if __name__ == '__main__':
    import argparse
    ap = argparse.ArgumentParser()
    ap.add_argument('ll'); ap.add_argument('-o', default='-'); ap.add_argument('--roots', default='')
    ap.add_argument('--rename', default='')
    ap.add_argument('--stubs', default='')
    ap.add_argument('--model', default='bit', choices=['bit', 'ie'])
    ap.add_argument('--shrink', default='', help='N=M[:fn;fn] , comma separated')
    a = ap.parse_args()
    rn = dict(kv.split('=') for kv in a.rename.split(',') if kv)
    sh = []
    for it in a.shrink.split(','):
        if not it: continue
        nm, _, fns = it.partition(':'); frm, to = nm.split('=')
        sh.append((int(frm), int(to), set(x for x in fns.split(';') if x)))
    c = translate(open(a.ll).read(), [r for r in a.roots.split(',') if r] or None, rn, set(x for x in a.stubs.split(',') if x), a.model, sh)
    if a.o == '-': sys.stdout.write(c)
    else: open(a.o, 'w').write(c)
