#!/usr/bin/env python3
"""seedmeta.py <seed> <result> <detail>: record the outcome of running the checks on a seeded change (seeded/<seed>/meta.json)."""
import json, sys
p = f'/verif/seeded/{sys.argv[1]}/meta.json'; m = json.load(open(p))
m['result'] = sys.argv[2]; m['result_detail'] = sys.argv[3]
m['checks_run'] = f'engine/try_seed.sh /verif/seeded/{sys.argv[1]} <ids> (git -C /repo apply; ./check <id>; git -C /repo checkout -- . as soon as the sources were captured)'
json.dump(m, open(p, 'w'), indent=1)
