#!/usr/bin/env python3
"""Regenerates /verif/MANIFEST.json from the table below (kept valid at all times)."""
import json, os
VERIF = os.path.dirname(os.path.dirname(os.path.abspath(__file__)))
TECH = 'bounded symbolic execution of the clang-lowered real functions (LLVM IR -> C via engine/ir2c.py) with CBMC 6.11 + CaDiCaL; unwinding assertions; witness twin; counterexample replay against g++/ASan build'
COMMON_NOTE = 'Trusted: clang-14 -O1 lowering, engine/ir2c.py (validated every run by differential execution of the generated C against the g++ build of the same sources on random vectors), CBMC 6.11 + CaDiCaL, malloc never fails; per-property stubs and contracts are listed in the evidence file (assumptions) and DESIGN.md.'
CLAIMED = {
 'C19': dict(text='Solver verdict (UNSAT with unwinding assertions, witness twin violated) over all inputs inside the stated bounds for the real OASIS/GDSII number codecs: all 64-bit integers, all byte strings with encodings of 1..11 bytes, every finite double for the OASIS real round trip, every double in the GDSII range, point lists of 3 vertices; bounded model checking is the right level because the codecs are loop-bounded bit-vector functions whose interesting inputs (7-bit group boundaries, exponent edges, reciprocal forms) are rare.',
             note=COMMON_NOTE + ' libm contracts for log2/pow/exp2/ceil/trunc; IEEE division as an uninterpreted sign-symmetric function (bit-precise fallback); point lists on a typed token stream.', ref='3.1'),
 'C20': dict(text='One inductive step per operation from an ARBITRARY valid table/list/array (solver chooses slot pattern, keys, values and the hash function), so operation histories of any length are covered for tables of the stated capacity; sorting kernels for every array up to 6 elements under any ordering; property lists as ordered multimaps.',
             note=COMMON_NOTE + ' hash functions replaced by arbitrary functions; copy_string by its contract for 1-character keys; table growth is its own step (resize proved, then used as a contract in set-at-threshold).', ref='3.3'),
 'C14': dict(text='Polygon::contain equals an exact integer winding-number/on-boundary oracle for every vertex list of <= 3 (thorough 4) vertices on a grid and every half-grid query point, with every double operation of the real code proved exact; group queries proved equal to AND/OR of contain for an arbitrary contain satisfying the proved bounding-box lemma; area/perimeter equal the shoelace / edge sums.',
             note=COMMON_NOTE + ' integer-exact arithmetic model justified by range assertions inside each query (IEEE-754: exact on integer-valued doubles below 2^53); Vec2::length abstracted in perimeter.', ref='3.2'),
 'C11': dict(text='For every repetition kind and every shape up to 3x3 / 3 entries (shapes enumerated, values symbolic): count, enumerated offsets and extrema agree with the documented vector set; Repetition::transform maps every vector by m*R(c,s)*reflect with cos/sin as free symbols (one query covers all rotations); Polygon::apply_repetition yields exactly one independent translated deep copy per non-zero vector.',
             note=COMMON_NOTE + ' integer-exact model; cos/sin free integer symbols (polynomial-identity argument, DESIGN.md 2.2); replay of transform counterexamples only for axis rotations.', ref='3.4'),
 'C10': dict(text='Every transform entry point of Polygon, Label, Reference, FlexPath and RobustPath is executed symbolically with integer-valued geometry and cos/sin as free symbols; the solver proves that the resulting coordinates / placement fields / trafo matrix equal the documented affine composition (polynomial identities, hence valid for every rotation, magnification and translation in exact arithmetic), including width/offset/end-extension scaling and reflection signs; RobustPath from an arbitrary prior trafo, so sequences are covered inductively.',
             note=COMMON_NOTE + ' integer-exact model; free-symbol cos/sin; outlines (transform-then-outline) are outside.', ref='3.5'),
 'C09': dict(text='Element bounding boxes for every repetition kind, Reference::bounding_box on a two-level hierarchy with the real Map<GeometryInfo> cache (corner shortcut and hull branch, fresh / prefilled / reused cache), and the point set Reference::repeat_and_transform feeds to the hull (all repetition offsets reached in 8 directions) are proved equal to the min/max over fully transformed, fully repeated geometry computed by the harness.',
             note=COMMON_NOTE + ' qhull replaced by the identity hull (hull minimality/ordering not decided); is_multiple_of_pi_over_2 by contract; integer-exact model with free cos/sin.', ref='3.6'),
 'C16': dict(text='One library edit (replace_cell cell->cell / cell->raw cell, rename_cell) or graph query (top_level, get_dependencies direct and recursive) from an ARBITRARY small library - reference kinds, targets and names symbolic - is proved equal to an abstract graph model kept by the harness, including the frame (untouched references bit-identical); because the pre-state is arbitrary one step covers edit histories of any length.',
             note=COMMON_NOTE + ' Map<Cell*>/Map<RawCell*> replaced by an abstract association list in the graph queries (C20 proves Map<T>), strlen/copy_string by contract for 1-character names; recursive query on enumerated acyclic graph shapes.', ref='3.8'),
 'C18': dict(text='Modular solver decision of the truncation property: (1) the real gdsii_read_record on every stream of 0..12 arbitrary bytes is a correct short-read detector; (2) each GDSII reader (read_gds, read_rawcells, gds_units, gds_timestamp, gds_info), with the record reader replaced by that contract, is executed symbolically on record prefixes of enumerated kinds with arbitrary payloads followed by a short read: it returns (unwinding assertions = no hang), touches no invalid memory (CBMC pointer checks = no double free), releases its handle and never returns a shortened layout; (3) oas_precision / oas_validate on the OASIS magic plus arbitrary bytes at every cut position.',
             note=COMMON_NOTE + ' in-memory FILE model with handle counting; crc32 as a rolling function; record buffers shrunk from 65537 to 64 bytes by the translator; memory leaks are not asserted.', ref='3.12'),
 'C01': dict(text='The real Library::write_gds runs on an in-memory file for single-element libraries with symbolic coordinates, tags, text and placement; the solver proves (phase 1) that the bytes pass an independent strict decoder and decode to the saved library, (phase 2) that the real read_gds returns the same unit, precision, names and element fields, (phase 3) that writing the re-loaded library gives a byte-identical file; array lattices are proved to survive export (AREF corner points and counts).',
             note=COMMON_NOTE + ' unit = precision (scaling 1); libm contracts; strlen by contract (1-character strings); Polygon::fracture (Clipper) asserted unreachable without a vertex limit.', ref='3.9'),
 'C03': dict(text='Reader direction: streams produced by a specification-derived encoder (harness/gds_spec.h) - BOUNDARY (with ELFLAGS/PLEX), BOX, PATH with every PATHTYPE / signed WIDTH / extensions, SREF and AREF, TEXT with PRESENTATION/STRANS/MAG/ANGLE, property pairs, split XY, UNITS with and without a target unit - are loaded by the real read_gds into exactly the encoded layout, all field values symbolic. Writer direction: strict decoder over write_gds output and the AREF export obligation.',
             note=COMMON_NOTE + ' framing fixed per variant (one element per file), MAG/ANGLE from a small concrete set in whole-file queries (the real8 codec is proved for all values in C19).', ref='3.9'),
}
NA = {
}
PENDING = 'check not yet built in this commit (planned in DESIGN.md); not claimed until it exists'
def main():
    props = [json.loads(l)['id'] for l in open(os.path.join(VERIF, 'properties.jsonl'))]
    checks = []
    for pid in props:
        if pid in CLAIMED:
            c = CLAIMED[pid]
            checks.append(dict(property_id=pid, quick_cmd=f'./check {pid} --tier quick', thorough_cmd=f'./check {pid} --tier thorough',
                               evidence_file=f'/verif/evidence/{pid}.json', replay_cmd_template=f'./check {pid} --replay {{path}}', engine='ir2c-cbmc',
                               level_claimed=dict(category='model_checking', text=c['text'], design_ref='DESIGN.md ' + c['ref']),
                               level_note=c['note'], technique=TECH))
    na = [dict(property_id=p, reason=NA.get(p, PENDING)) for p in props if p not in CLAIMED]
    man = dict(version=1, setup_cmd='true',
               hooks=dict(guard='HEITZMANN_GDSTK_VERIF', enable='checks compile /repo/src with -DHEITZMANN_GDSTK_VERIF (no hook is currently needed; the define guards nothing)',
                          baseline_off_cmd='cmake -G Ninja -B /repo/_build -S /repo && cmake --build /repo/_build && cmake --build /repo/_build --target examples && ctest --test-dir /repo/_build -j8 --timeout 900',
                          source_commits=[], add_only=True),
               engines=[dict(name='ir2c-cbmc', path='engine/driver.py', serves_properties=sorted(CLAIMED),
                             kind_free_text='clang-14 IR of /repo working tree -> C (own translator) -> CBMC bounded symbolic execution, SAT back end CaDiCaL/kissat; regenerated every run')],
               checks=checks, not_applicable=na,
               notes='All checks: exit 0 held within bounds; exit 1 + VIOLATION line = counterexample reproduced against the real code; exit 2 = inconclusive (never success).')
    json.dump(man, open(os.path.join(VERIF, 'MANIFEST.json'), 'w'), indent=1)
if __name__ == '__main__': main()
