#!/usr/bin/env python3
"""Regenerates /verif/MANIFEST.json from the table below (kept valid at all times)."""
import json, os
VERIF = os.path.dirname(os.path.dirname(os.path.abspath(__file__)))
TECH = 'bounded symbolic execution of the clang-lowered real functions (LLVM IR -> C via engine/ir2c.py) with CBMC 6.11 + CaDiCaL; unwinding assertions; witness twin; counterexample replay against g++/ASan build'
CLAIMED = {
 'C19': dict(text='Solver verdict (UNSAT with unwinding assertions) over all inputs inside the stated bounds for the real OASIS/GDSII number codecs: all 64-bit integers, all byte strings up to 11 bytes, all doubles in the GDSII range; bounded model checking is the right level because the codecs are loop-bounded bit-vector functions where the interesting inputs (7-bit group boundaries, exponent edges) are rare.',
             note='Trusted: clang-14 lowering at -O1, the IR->C translator (validated every run against the g++ build on random vectors), CBMC/CaDiCaL, libm contracts for log2/exp2/pow listed in the evidence assumptions; malloc never fails.', ref='3.1'),
}
NA = {
}
PENDING = 'check not yet built in this commit (planned in DESIGN.md); not claimed until it exists'
def main():
    props = [json.loads(l)['id'] for l in open(os.path.join(VERIF, 'properties.jsonl'))]
    checks = []
    for pid in props:
        if pid in CLAIMED:
            c = CLAIMED[pid]
            checks.append(dict(property_id=pid, quick_cmd=f'./check {pid} --tier quick', thorough_cmd=f'./check {pid} --tier thorough',
                               evidence_file=f'/verif/evidence/{pid}.json', replay_cmd_template=f'./check {pid} --replay {{path}}', engine='ir2c-cbmc',
                               level_claimed=dict(category='model_checking', text=c['text'], design_ref='DESIGN.md ' + c['ref']),
                               level_note=c['note'], technique=TECH))
    na = [dict(property_id=p, reason=NA.get(p, PENDING)) for p in props if p not in CLAIMED]
    man = dict(version=1, setup_cmd='true',
               hooks=dict(guard='HEITZMANN_GDSTK_VERIF', enable='checks compile /repo/src with -DHEITZMANN_GDSTK_VERIF (no hook is currently needed; the define guards nothing)',
                          baseline_off_cmd='cmake -G Ninja -B /repo/_build -S /repo && cmake --build /repo/_build && ctest --test-dir /repo/_build -j8 --timeout 900',
                          source_commits=[], add_only=True),
               engines=[dict(name='ir2c-cbmc', path='engine/driver.py', serves_properties=sorted(CLAIMED),
                             kind_free_text='clang-14 IR of /repo working tree -> C (own translator) -> CBMC bounded symbolic execution, SAT back end CaDiCaL/kissat; regenerated every run')],
               checks=checks, not_applicable=na,
               notes='All checks: exit 0 held within bounds; exit 1 + VIOLATION line = counterexample reproduced against the real code; exit 2 = inconclusive (never success).')
    json.dump(man, open(os.path.join(VERIF, 'MANIFEST.json'), 'w'), indent=1)
if __name__ == '__main__': main()
