#!/usr/bin/env python3
"""Driver: /repo working tree -> IR -> C -> cbmc queries (proof + witness twin per obligation variant),
translation validation against the g++ build of the real code, counterexample replay, evidence.

usage: driver.py <property-id> [--tier quick|thorough] [--only substr] [--keep] [--jobs N]
exit 0: every obligation held within its bound (known findings listed as KNOWN-FINDING lines)
exit 1: a violation reproduced against the real code (VIOLATION property=<id> replay=<path>)
exit 2: inconclusive (time-out, memory, solver error, non-reproducing counterexample, vacuous harness)
"""
import threading
TRANSLATE_LOCK = threading.Lock()
import argparse, hashlib, importlib.util, json, os, re, resource, shutil, signal, subprocess, sys, tempfile, time
from concurrent.futures import ThreadPoolExecutor, as_completed

VERIF = os.path.dirname(os.path.dirname(os.path.abspath(__file__)))
REPO = os.environ.get('REPO', '/repo')
sys.path.insert(0, os.path.join(VERIF, 'engine'))
import ir2c

FILE_RENAMES = {n: 'vf_' + n for n in ('fopen', 'fclose', 'fread', 'fwrite', 'feof', 'ferror', 'fileno', 'fprintf', 'fputc', 'fputs',
                                       'fseek', 'ftell', 'putc', 'printf', 'puts', 'pread', 'stderr', 'stdout')}
WRAP_SYMS = ('fopen', 'fclose', 'fread', 'fwrite', 'feof', 'ferror', 'fileno', 'fputc', 'fseek', 'ftell', 'putc', 'pread')

class Ob:
    """One obligation: a harness, the units it pulls from the IR, and its bounds."""
    def __init__(s, name, harness, roots, what, bound, stubs=(), ir='inl', model='bit', rename=None, shrink=(),
                 variants=None, unwind=None, unwindset=(), flags=(), timeout=300, mem_gb=8, tier='quick', real=True,
                 validate=True, nvec=60, wrap_files=False, excludes=(), defines=None, witness=True, no_unwind_assert=False,
                 solver='cadical', real_stub_syms=(), retry_defines=(), fallback=None, callrename=None, unwinding_is_property=False, mem_est_gb=3):
        s.unwinding_is_property = unwinding_is_property; s.mem_est_gb = mem_est_gb      # expected peak RSS of one query: the scheduler keeps the sum below MEM_BUDGET_GB
        s.callrename = {(a, b): c for a, d in (callrename or {}).items() for b, c in d.items()}
        s.retry_defines = list(retry_defines); s.fallback = fallback
        s.name, s.harness, s.roots, s.what, s.bound = name, harness, list(roots), what, bound
        s.stubs, s.ir, s.model, s.rename, s.shrink = list(stubs), ir, model, dict(rename or {}), list(shrink)
        s.variants = variants or [{}]
        s.unwind, s.unwindset, s.flags, s.timeout, s.mem_gb, s.tier = unwind, list(unwindset), list(flags), timeout, mem_gb, tier
        s.real, s.validate, s.nvec, s.wrap_files, s.excludes = real, validate, nvec, wrap_files, list(excludes)
        s.defines = dict(defines or {}); s.witness = witness; s.no_unwind_assert = no_unwind_assert; s.solver = solver
        s.real_stub_syms = list(real_stub_syms)

def sh(cmd, timeout=None, cwd=None, env=None, mem_gb=None, out=None):
    """run, return (rc, stdout+stderr text, wall, maxrss_kb); rc = 'timeout' on time-out"""
    def pre():
        os.setsid()
        if mem_gb:
            lim = int(mem_gb * (1 << 30)); resource.setrlimit(resource.RLIMIT_AS, (lim, lim))
    t0 = time.time()
    tmpf = None
    if not out:
        fd, tmpf = tempfile.mkstemp(prefix='verif_out_'); os.close(fd); out = tmpf
    fo = open(out, 'w')
    p = subprocess.Popen(cmd, stdout=fo, stderr=subprocess.STDOUT, cwd=cwd, env=env, preexec_fn=pre)
    rc = None; rss = 0
    while True:
        pid, st, ru = os.wait4(p.pid, os.WNOHANG)
        if pid != 0:
            rss = ru.ru_maxrss
            rc = os.WEXITSTATUS(st) if os.WIFEXITED(st) else -os.WTERMSIG(st)
            break
        if timeout and time.time() - t0 > timeout:
            try: os.killpg(p.pid, signal.SIGKILL)
            except ProcessLookupError: pass
            pid, st, ru = os.wait4(p.pid, 0); rss = ru.ru_maxrss; rc = 'timeout'
            break
        time.sleep(0.05 if time.time() - t0 < 2 else 0.25)
    p.returncode = 0
    fo.close(); o = open(out, errors='replace').read()
    if tmpf: os.unlink(tmpf)
    return rc, o or '', time.time() - t0, rss

class Run:
    def __init__(s, prop, tier, work, jobs):
        s.prop, s.tier, s.work, s.jobs = prop, tier, work, jobs
        s.modules = {}; s.ir_sha = {}
        s.real_lib = None
        s.log = []

    def build_ir(s):
        rc, o, w, _ = sh([os.path.join(VERIF, 'engine', 'build_ir.sh'), s.work], timeout=600, env=dict(os.environ, REPO=REPO))
        if rc != 0:
            print(o); raise SystemExit(2)
        for line in open(os.path.join(s.work, 'ir.sha256')):
            h, f = line.split(); s.ir_sha[os.path.basename(f)] = h
        return w

    def module(s, kind):
        with TRANSLATE_LOCK:
          if kind not in s.modules:
            f = os.path.join(s.work, 'gdstk.ll' if kind == 'inl' else 'gdstk_ni.ll')
            s.modules[kind] = ir2c.parse_module(open(f).read())
        return s.modules[kind]

    def build_real(s):
        """g++ -O1 -fno-inline + ASan/UBSan build of /repo/src (+clipper, + /verif/wrappers): the real code for replay/validation"""
        if s.real_lib: return s.real_lib
        d = os.path.join(s.work, 'real'); os.makedirs(d, exist_ok=True)
        srcs = [os.path.join(REPO, 'src', f) for f in sorted(os.listdir(os.path.join(REPO, 'src'))) if f.endswith('.cpp')]
        srcs.append(os.path.join(REPO, 'external/clipper/clipper.cpp'))
        wd = os.path.join(VERIF, 'wrappers')
        srcs += [os.path.join(wd, f) for f in sorted(os.listdir(wd)) if f.endswith('.cpp')]
        procs = []
        for f in srcs:
            o = os.path.join(d, os.path.basename(f)[:-4] + '.o')
            procs.append((f, subprocess.Popen(['g++', '-std=c++17', '-O1', '-g', '-fno-inline', '-DNDEBUG', '-DHEITZMANN_GDSTK_VERIF', '-fsanitize=address,undefined', '-fno-sanitize=nonnull-attribute,alignment',
                                               '-fno-sanitize-recover=undefined', '-I' + REPO + '/include', '-I' + REPO + '/external', '-I' + REPO + '/external/clipper',
                                               '-c', f, '-o', o], stdout=subprocess.PIPE, stderr=subprocess.STDOUT, text=True)))
        for f, p in procs:
            o, _ = p.communicate()
            if p.returncode != 0:
                print('real build failed:', f, o); raise SystemExit(2)
        lib = os.path.join(d, 'libreal.a')
        subprocess.check_call(['ar', 'rcs', lib] + [os.path.join(d, x) for x in os.listdir(d) if x.endswith('.o')])
        s.real_lib = lib
        return lib

def harness_path(ob):
    return os.path.join(VERIF, 'harness', ob.harness)

def variant_tag(v):
    return '_'.join(f"{k}{v[k]}" for k in sorted(v)) or 'v'

def prepare(run, ob, v):
    """translate units for this obligation variant; returns dict with paths"""
    d = os.path.join(run.work, 'ob', ob.name, variant_tag(v)); os.makedirs(d, exist_ok=True)
    m = run.module(ob.ir)
    rn = dict(FILE_RENAMES); rn.update(ob.rename)
    shrink = []
    for it in ob.shrink:
        shrink.append(it)
    import io, contextlib
    err = io.StringIO()
    with TRANSLATE_LOCK, contextlib.redirect_stderr(err):
        c = ir2c.translate(m, ob.roots, rn, set(ob.stubs), ob.model, shrink, callrename=ob.callrename)
        fns, stubs = list(ir2c.translate.last_functions), list(ir2c.translate.last_stubs)
        h = ir2c.translate(m, ob.roots, dict(ob.rename), set(ob.stubs), 'bit', shrink, decls_only=True)
    open(os.path.join(d, 'unit.c'), 'w').write(c)
    open(os.path.join(d, 'unit_decl.h'), 'w').write(h)
    unsupported = [l for l in err.getvalue().splitlines() if l.startswith('UNSUPPORTED')]
    missing = [r for r in ob.roots if r not in fns and r not in stubs]
    return dict(dir=d, functions=fns, stubs=stubs, unsupported=unsupported, missing=missing)

def defs(ob, v, extra=()):
    ds = dict(ob.defines); ds.update(v)
    out = [f"-D{k}={val}" for k, val in ds.items()]
    out.append('-DMODEL_IE' if ob.model == 'ie' else '-DMODEL_BIT')
    if ob.wrap_files: out.append('-DWRAP_FILES')
    out += list(extra)
    return out

def cbmc_cmd(ob, v, d, extra=()):
    cmd = ['cbmc', harness_path(ob), '-I', d, '-I', os.path.join(VERIF, 'engine', 'env'), '-I', os.path.join(VERIF, 'harness')]
    cmd += defs(ob, v, extra)
    if ob.unwind is not None: cmd += ['--unwind', str(ob.unwind)]
    if ob.unwindset: cmd += ['--unwindset', ','.join(ob.unwindset)]
    if not ob.no_unwind_assert: cmd += ['--unwinding-assertions']
    else: cmd += ['--no-unwinding-assertions']
    cmd += ['--no-malloc-may-fail', '--drop-unused-functions', '--trace', '--verbosity', '6', '--object-bits', '12']
    if ob.solver == 'kissat': cmd += ['--external-sat-solver', 'kissat']
    else: cmd += ['--sat-solver', 'cadical']
    cmd += ob.flags
    return cmd

RE_FAIL = re.compile(r'^\[(\S+)\] (.*): FAILURE$', re.M)
def classify(rc, out):
    if rc == 'timeout': return 'timeout'
    if 'VERIFICATION SUCCESSFUL' in out: return 'holds'
    if 'VERIFICATION FAILED' in out: return 'fails'
    if 'std::bad_alloc' in out or 'Out of memory' in out or rc in (-9, 137, -6, 134): return 'oom'
    return 'error'

def extract_inputs(out, which=0):
    """inputs (nd_log) of ONE counterexample trace: cbmc prints a trace per failed property and they differ, so the assignments
    must not be mixed. Traces of harness assertions (main.assertion.*) come first; `which` selects among them."""
    parts = re.split(r'^Trace for (\S+):\s*$', out, flags=re.M)
    traces = [(parts[i], parts[i + 1]) for i in range(1, len(parts) - 1, 2)]
    if not traces: traces = [('', out)]
    traces.sort(key=lambda t: 0 if t[0].startswith('main.assertion') else 1)
    name, text = traces[min(which, len(traces) - 1)]
    vals = {}; n = None
    for m in re.finditer(r'^\s*nd_log\[(\d+)l?\]=(\d+)', text, re.M):
        vals[int(m.group(1))] = int(m.group(2))
    for m in re.finditer(r'^\s*nd_n=(-?\d+)', text, re.M):
        n = int(m.group(1))
    if n is None: n = (max(vals) + 1) if vals else 0
    return [vals.get(i, 0) for i in range(n)]

def count_traces(out):
    return max(1, len(re.findall(r'^Trace for (\S+):\s*$', out, flags=re.M)))

def native_build(run, ob, v, d, real, extra=()):
    exe = os.path.join(d, 'native_real' if real else 'native_tr')
    inc = ['-I', d, '-I', os.path.join(VERIF, 'engine', 'env'), '-I', os.path.join(VERIF, 'harness')]
    if not real:
        cmd = ['gcc', '-O1', '-g', '-w', '-DNATIVE'] + defs(ob, v, extra) + inc + [harness_path(ob), '-o', exe, '-lm']
        rc, o, _, _ = sh(cmd, timeout=300)
        return (exe if rc == 0 else None), o
    lib = run.build_real()
    obj = exe + '.o'
    cmd = ['gcc', '-O0', '-g', '-w', '-DNATIVE', '-DREAL', '-fsanitize=address,undefined'] + defs(ob, v, extra) + inc + ['-c', harness_path(ob), '-o', obj]
    rc, o, _, _ = sh(cmd, timeout=300)
    if rc != 0: return None, o
    link = ['g++', '-fsanitize=address,undefined', obj, lib, '-lz', '-lqhull_r', '-lm', '-o', exe]
    if ob.wrap_files: link += ['-Wl,' + ','.join('--wrap=' + x for x in WRAP_SYMS)]
    if ob.real_stub_syms: link += ['-Wl,' + ','.join('--wrap=' + x for x in ob.real_stub_syms)]
    rc, o2, _, _ = sh(link, timeout=300)
    return (exe if rc == 0 else None), o + o2

def run_native(exe, inputs=None, seed=None, d=None, timeout=20):
    env = dict(os.environ); env.pop('ND_INPUT', None); env.pop('ND_SEED', None)
    env['ASAN_OPTIONS'] = 'detect_leaks=0:abort_on_error=0:exitcode=99'
    env['UBSAN_OPTIONS'] = 'print_stacktrace=1:halt_on_error=1:exitcode=98'
    if inputs is not None:
        f = os.path.join(d, f'nd_input_{os.path.basename(exe)}.txt'); open(f, 'w').write('\n'.join(map(str, inputs)) + '\n'); env['ND_INPUT'] = f
    if seed is not None: env['ND_SEED'] = str(seed)
    rc, o, _, _ = sh([exe], timeout=timeout, env=env)
    return rc, o

def sig(out):
    """the part of a native run's output that is compared between builds (stderr logging of the real code is not)"""
    return [re.sub(r'^(CHECK-FAILED|ASSUME-FAILED) line \d+', r'\1', l) for l in out.splitlines() if l.startswith(('OBS ', 'CHECK-FAILED', 'ASSUME-FAILED'))]

def validate(run, ob, v, d):
    """translation validation: same harness, same concrete vectors, generated C vs g++ build of the real code"""
    res = dict(vectors=0, compared=0, skipped=0, disagreements=[], error=None)
    tr, o1 = native_build(run, ob, v, d, real=False)
    if not tr: res['error'] = 'native translated build failed: ' + o1[-2000:]; return res
    rl = None
    if ob.real:
        rl, o2 = native_build(run, ob, v, d, real=True)
        if not rl: res['error'] = 'native real build failed: ' + o2[-2000:]; return res
    for seed in range(1, ob.nvec + 1):
        res['vectors'] += 1
        rc1, out1 = run_native(tr, seed=seed)
        if rc1 == 77 or (rc1 not in (0, 1)): res['skipped'] += 1; continue      # assumption failed / left the int-exact regime
        if rl:
            rc2, out2 = run_native(rl, seed=seed)
            if rc2 == 77 or rc2 == 'timeout': res['skipped'] += 1; continue      # a native time-out during differential validation is not a verdict
            res['compared'] += 1
            both_fail = rc1 == 1 and rc2 not in (0, 77)      # the translated run fails its CHECK and the real code fails too (CHECK, sanitizer report or crash): agreement on failure; the real failure is reported below
            if not both_fail and (rc1, sig(out1)) != (rc2, sig(out2)):
                res['disagreements'].append(dict(seed=seed, translated=[rc1, out1[-600:]], real=[rc2, out2[-600:]]))
        else:
            res['compared'] += 1
        if rc1 == 1:
            res.setdefault('native_check_failures', []).append(dict(seed=seed, out=out1[-400:]))
        if rl and rc2 not in (0, 77):
            res.setdefault('real_failures', []).append(dict(seed=seed, rc=rc2, out=out2[-1500:]))
    return res

def run_query(run, ob, v, prep, witness, extra=()):
    d = prep['dir']
    tag = ('wit' if witness else 'proof') + ''.join(x.replace('-D', '_') for x in extra)
    ex = list(extra) + (['-DWITNESS'] if witness else [])
    cmd = cbmc_cmd(ob, v, d, ex)
    if witness: cmd = [c for c in cmd if c != '--trace'] + ['--stop-on-fail']
    outf = os.path.join(d, f'cbmc_{tag}.log')
    rc, out, wall, rss = sh(cmd, timeout=ob.timeout, mem_gb=ob.mem_gb, out=outf)
    verdict = classify(rc, out)
    fails = RE_FAIL.findall(out)
    if not fails and 'Violated property:' in out:
        mm2 = re.search(r'Violated property:\s*\n\s*(.*)\n\s*(.*)\n', out)
        if mm2: fails = [(mm2.group(1).strip(), mm2.group(2).strip())]
    mm = re.search(r'(\d+) variables, (\d+) clauses', out)
    return dict(kind=tag, verdict=verdict, wall_s=round(wall, 2), max_rss_mb=rss // 1024, failures=[f"{a}: {b}" for a, b in fails][:12],
                variables=int(mm.group(1)) if mm else None, clauses=int(mm.group(2)) if mm else None, log=outf, cmd=' '.join(cmd))

def load_findings():
    """known_findings.txt -> list of dicts for the 'known:' lines (fixed: lines suppress nothing)"""
    f = os.path.join(VERIF, 'known_findings.txt'); out = []
    if not os.path.exists(f): return out
    for line in open(f):
        m = re.match(r'known:\s+property=(\S+)\s+id=(\S+)\s+obligation=(\S+)\s+::\s+(.*)$', line.strip())
        if m: out.append(dict(property=m.group(1), id=m.group(2), obligation=m.group(3), what=m.group(4), status='known'))
    return out

MEM_BUDGET_GB = 40
_mem_cv = threading.Condition(); _mem_used = [0]
def process(run, ob, v, findings):
    need = min(ob.mem_est_gb, MEM_BUDGET_GB)
    with _mem_cv:
        while _mem_used[0] + need > MEM_BUDGET_GB: _mem_cv.wait()
        _mem_used[0] += need
    try:
        return process_(run, ob, v, findings)
    finally:
        with _mem_cv:
            _mem_used[0] -= need; _mem_cv.notify_all()
def process_(run, ob, v, findings):
    """one obligation variant: translate, validate, proof (+exclusions), witness; returns result record"""
    rec = dict(obligation=ob.name, variant=v, what=ob.what, bound=ob.bound, model=ob.model, queries=[], status='holds', notes=[])
    t0 = time.time()
    try:
        prep = prepare(run, ob, v)
    except Exception as e:
        rec['status'] = 'inconclusive'; rec['notes'].append(f'translation failed: {e!r}'); return rec
    rec['functions'] = prep['functions']; rec['stubs'] = prep['stubs']
    if prep['missing']:
        rec['status'] = 'inconclusive'; rec['notes'].append('roots not found in IR (renamed/removed upstream?): ' + ','.join(prep['missing'])); return rec
    d = prep['dir']
    known = [f for f in findings if f.get('property') == run.prop and f.get('obligation') == ob.name and f.get('status') == 'known']
    excl = ['-DEXCLUDE_' + f['id'] for f in known if f['id'] in ob.excludes]
    if ob.validate:
        val = validate(run, ob, v, d)
        rec['translation_validation'] = {k: val[k] for k in ('vectors', 'compared', 'skipped')}
        if val['error']:
            rec['status'] = 'inconclusive'; rec['notes'].append(val['error']); return rec
        if val['disagreements']:
            rec['status'] = 'inconclusive'; rec['notes'].append('translation validation: generated C and real code disagree: ' + json.dumps(val['disagreements'][:2])); return rec
        if val.get('real_failures'):
            # the real code (g++/ASan build) fails the harness oracle on a concrete random vector: that IS a reproduced violation
            rf = val['real_failures'][0]
            rec['status'] = 'counterexample'; rec['dir'] = d
            rec['counterexample'] = dict(inputs=None, seed=rf['seed'], failures=['native run of the real code on random vector seed=%d: ' % rf['seed'] + sig(rf['out'])[-1] if sig(rf['out']) else 'sanitizer report'])
            rec['notes'].append('found by the differential native run before any solver query')
            return rec
        if val.get('native_check_failures'):
            rec['notes'].append('native run of the harness failed a CHECK on a random vector: ' + json.dumps(val['native_check_failures'][:1]))
            rec['native_failure_seed'] = val['native_check_failures'][0]['seed']
    q = run_query(run, ob, v, prep, False, excl)
    rec['queries'].append(q)
    if q['verdict'] == 'holds':
        if ob.witness:
            w = run_query(run, ob, v, prep, True, excl)
            rec['queries'].append(w)
            only_wit = w['verdict'] == 'fails' and any('WITNESS' in f for f in w['failures'])
            if not only_wit:
                rec['status'] = 'inconclusive'; rec['notes'].append(f"witness twin not violated ({w['verdict']}): harness may be vacuous")
            else:
                rec['nonvacuous'] = True
    elif q['verdict'] == 'fails':
        out = open(q['log']).read()
        unwinding_only = q['failures'] and all('unwinding assertion' in f for f in q['failures'])
        inputs = extract_inputs(out)
        rec['counterexample'] = dict(inputs=inputs, failures=q['failures']); rec['cex_log'] = q['log']
        rec['status'] = 'counterexample'
        rec['unwinding_only'] = bool(unwinding_only)
    else:
        rec['status'] = 'inconclusive'; rec['notes'].append(f"solver gave no verdict: {q['verdict']} after {q['wall_s']} s")
    # known findings: confirm each is still present (query without its exclusion must fail)
    rec['known_present'] = []
    if rec['status'] == 'holds' and excl:
        for f in known:
            if f['id'] not in ob.excludes: continue
            others = [e for e in excl if e != '-DEXCLUDE_' + f['id']] + ['-DONLY_' + f['id']]
            k = run_query(run, ob, v, prep, False, others)
            k['kind'] = 'known:' + f['id']; rec['queries'].append(k)
            if k['verdict'] == 'fails': rec['known_present'].append(f['id'])
    rec['wall_s'] = round(time.time() - t0, 2)
    rec['dir'] = d
    return rec

def replay(run, ob, rec):
    """feed the counterexample to the real code; returns (reproduced, text)"""
    d = rec['dir']; v = rec['variant']
    inputs = rec['counterexample']['inputs']; seed = rec['counterexample'].get('seed')
    if not ob.real:
        return None, 'obligation has no real-code replay (abstraction not linkable)'
    exe, o = native_build(run, ob, v, d, real=True)
    if not exe: return None, 'replay build failed: ' + o[-1500:]
    rc, out = run_native(exe, inputs=inputs, d=d, timeout=60) if inputs is not None else run_native(exe, seed=seed, timeout=60)
    if rc == 'timeout': return True, 'native replay did not return within 60 s (hang)\n' + out[-1500:]
    if rc == 0: return False, out[-1500:]
    if rc == 77: return None, 'replay: counterexample inputs violate a harness assumption natively: ' + out[-500:]
    return True, f'exit={rc}\n' + out[-3000:]

def main():
    ap = argparse.ArgumentParser()
    ap.add_argument('prop'); ap.add_argument('--tier', default=os.environ.get('VERIF_TIER', 'quick'), choices=['quick', 'thorough'])
    ap.add_argument('--only', default=''); ap.add_argument('--keep', action='store_true'); ap.add_argument('--jobs', type=int, default=int(os.environ.get('VERIF_JOBS', '14')))
    ap.add_argument('--no-evidence', action='store_true'); ap.add_argument('--variant', default='', help='debugging: only variants whose tag contains this (implies --no-evidence)')
    ap.add_argument('--replay', default='', help='replay record (json) written by an earlier run: re-run its inputs against the real code')
    a = ap.parse_args()
    t0 = time.time()
    spec = importlib.util.spec_from_file_location('obl', os.path.join(VERIF, 'obligations', a.prop + '.py'))
    mod = importlib.util.module_from_spec(spec); mod.Ob = Ob; spec.loader.exec_module(mod)
    obs = [o for o in mod.OBLIGATIONS if (o.tier != 'fallback') and (a.tier == 'thorough' or o.tier == 'quick') and a.only in o.name]
    fallbacks = {o.name: o for o in mod.OBLIGATIONS if o.tier == 'fallback'}
    if a.tier == 'thorough' and hasattr(mod, 'thorough_overrides'): obs = mod.thorough_overrides(obs)
    work = tempfile.mkdtemp(prefix=f'verif_{a.prop}_', dir=os.environ.get('VERIF_TMP', '/tmp'))
    run = Run(a.prop, a.tier, work, a.jobs)
    if a.replay:
        rec = json.load(open(a.replay)); rc = 2
        try:
            run.build_ir()
            cand = [o for o in mod.OBLIGATIONS if o.name == rec['obligation']]
            if not cand: print('unknown obligation', rec['obligation']); sys.exit(2)
            o = cand[0]; prep = prepare(run, o, rec['variant'])
            r = dict(dir=prep['dir'], variant=rec['variant'], counterexample=dict(inputs=rec['inputs'], seed=rec.get('seed')))
            ok, text = replay(run, o, r)
            print(text)
            if ok: print(f"VIOLATION property={a.prop} replay={a.replay}"); rc = 1
            elif ok is False: print('replay: the real code passes on these inputs'); rc = 0
        finally:
            shutil.rmtree(work, ignore_errors=True)
        sys.exit(rc)
    findings = load_findings()
    rc_final = 0
    try:
        ir_s = run.build_ir()
        for k in set(o.ir for o in obs): run.module(k)
        if any(o.real for o in obs): run.build_real()
        print(f'[{a.prop}] sources captured (IR and real-code build done; /repo is not read again)', flush=True)
        tasks = [(o, v) for o in obs for v in o.variants if a.variant in variant_tag(v)]
        if a.variant: a.no_evidence = True
        # heavier (longer time-out) first
        tasks.sort(key=lambda t: -t[0].timeout)
        results = []
        with ThreadPoolExecutor(max_workers=max(1, a.jobs // 2)) as ex:
            futs = {ex.submit(process, run, o, v, findings): (o, v) for o, v in tasks}
            for fu in as_completed(futs):
                o, v = futs[fu]
                try: r = fu.result()
                except Exception as e:
                    import traceback
                    r = dict(obligation=o.name, variant=v, status='inconclusive', notes=['driver exception: ' + traceback.format_exc()], queries=[], what=o.what, bound=o.bound)
                results.append((o, r))
                qs = ' '.join(f"{q['kind']}={q['verdict']}/{q['wall_s']}s/{q['max_rss_mb']}MB" for q in r['queries'])
                print(f"[{a.prop}] {r['obligation']} {variant_tag(v)}: {r['status']}  {qs}", flush=True)
                for n in r['notes']: print('    note:', n[:1500], flush=True)
        # counterexamples: replay against the real code
        violations = []; inconclusive = []
        replays_dir = os.path.join(os.environ.get('VERIF_REPLAYS_DIR', os.path.join(VERIF, 'replays')), a.prop)
        for o, r in results:
            if r['status'] == 'inconclusive': inconclusive.append(r); continue
            if r['status'] != 'counterexample': continue
            if r.get('unwinding_only') and not o.unwinding_is_property:
                r['status'] = 'inconclusive'; r['notes'].append('only unwinding assertions failed: loop bound too small for this tree'); inconclusive.append(r)
                print(f"[{a.prop}] {r['obligation']}: unwinding bound exceeded -> inconclusive: {r['counterexample']['failures'][:3]}"); continue
            ok, text = replay(run, o, r)
            if not ok and r.get('cex_log'):
                log = open(r['cex_log']).read()
                for w in range(1, min(count_traces(log), 6)):
                    r['counterexample']['inputs'] = extract_inputs(log, w)
                    ok, text = replay(run, o, r)
                    if ok: break
            if not ok and o.retry_defines:
                # the counterexample may rest on a contract that is weaker than the real environment: look for one under the tight contract
                for dfn in o.retry_defines:
                    q2 = run_query(run, o, r['variant'], dict(dir=r['dir']), False, [dfn]); q2['kind'] = 'retry:' + dfn; r['queries'].append(q2)
                    if q2['verdict'] == 'fails':
                        r['counterexample'] = dict(inputs=extract_inputs(open(q2['log']).read()), failures=q2['failures'])
                        ok, text = replay(run, o, r)
                        if ok: break
            r['replay'] = dict(reproduced=ok, output=text[-3000:])
            if not ok and o.fallback and o.fallback in fallbacks:
                # abstraction-level counterexample did not reproduce: decide with the concrete (bit-precise) formulation of the same obligation
                fo = fallbacks[o.fallback]
                for fv in fo.variants:
                    if not all(r['variant'].get(k) == val for k, val in fv.items() if k in r['variant']): continue
                    fr = process(run, fo, fv, findings)
                    print(f"[{a.prop}] fallback {fo.name} {variant_tag(fv)}: {fr['status']} " + ' '.join(f"{q['kind']}={q['verdict']}/{q['wall_s']}s" for q in fr['queries']), flush=True)
                    r['queries'] += fr['queries']
                    if fr['status'] == 'counterexample':
                        ok, text = replay(run, fo, fr)
                        if ok: r['counterexample'] = fr['counterexample']; r['dir'] = fr['dir']; break
            if ok:
                os.makedirs(replays_dir, exist_ok=True)
                path = os.path.join(replays_dir, f"{o.name}.{variant_tag(r['variant'])}.json")
                json.dump(dict(property=a.prop, obligation=o.name, variant=r['variant'], inputs=r['counterexample']['inputs'], seed=r['counterexample'].get('seed'),
                               cbmc_failures=r['counterexample']['failures'], real_code_output=text[-3000:], harness=o.harness,
                               how='nd_* inputs in order; replayed by the same harness compiled natively (-DNATIVE -DREAL) and linked against g++ -fsanitize=address,undefined build of /repo/src'),
                          open(path, 'w'), indent=1)
                r['status'] = 'violation'; r['replay_path'] = path; violations.append(r)
            else:
                r['status'] = 'inconclusive'; inconclusive.append(r)
                r['notes'].append('counterexample did not reproduce against the real code (stub/translator/harness problem): ' + text[-800:])
                print(f"[{a.prop}] {r['obligation']}: counterexample NOT reproduced: {r['counterexample']['failures'][:4]}\n{text[-1200:]}")
        # known findings
        for o, r in results:
            for fid in r.get('known_present', []):
                f = [x for x in findings if x['id'] == fid][0]
                print(f"KNOWN-FINDING: property={a.prop} {f['what']}")
        for r in violations:
            print(f"VIOLATION property={a.prop} replay={r['replay_path']}")
            print('   obligation:', r['obligation'], variant_tag(r['variant']), r['counterexample']['failures'][:4])
        if violations: rc_final = 1
        elif inconclusive:
            rc_final = 2
            for r in inconclusive: print(f"INCONCLUSIVE {r['obligation']} {variant_tag(r['variant'])}: {'; '.join(r['notes'])[:1200]}")
        if not a.no_evidence:
            write_evidence(a, mod, run, results, time.time() - t0, ir_s, len(violations))
    finally:
        if not a.keep: shutil.rmtree(work, ignore_errors=True)
        else: print('kept', work)
    print(f"[{a.prop}] tier={a.tier} obligations={len(obs)} wall={time.time()-t0:.1f}s exit={rc_final}")
    sys.exit(rc_final)

def write_evidence(a, mod, run, results, wall, ir_s, nviol):
    queries = []; fns = set(); stubs = set(); nonvac = 0; solver_time = 0.0; samples = []; tv = dict(vectors=0, compared=0, skipped=0)
    for o, r in results:
        for q in r['queries']:
            queries.append(dict(obligation=r['obligation'], variant=r['variant'], kind=q['kind'], verdict=q['verdict'], wall_s=q['wall_s'],
                                max_rss_mb=q['max_rss_mb'], variables=q['variables'], clauses=q['clauses'], backend=o.solver))
            solver_time += q['wall_s']
        fns.update(r.get('functions', [])); stubs.update(r.get('stubs', []))
        if r.get('nonvacuous'): nonvac += 1
        for k in tv: tv[k] += r.get('translation_validation', {}).get(k, 0)
    for o, r in results[:6]:
        samples.append(dict(obligation=r['obligation'], variant=r['variant'], what=r['what'], bound=r['bound'], status=r['status'],
                            unwind=o.unwind, unwindset=o.unwindset, replay=r.get('replay_path')))
    ev = dict(property_id=a.prop, tier=a.tier, seed=int(os.environ.get('VERIF_SEED', '0') or 0), level='model_checking',
              coverage=dict(evaluations=len(queries), distinct_nontrivial=nonvac,
                            rule='evaluations = solver queries discharged (proof queries, witness twins, known-finding confirmations); distinct_nontrivial = obligation variants whose proof query returned UNSAT with unwinding assertions AND whose -DWITNESS twin (same harness ending in assert(0)) was violated, i.e. shown reachable / non-vacuous',
                            samples=samples, obligations=len(results), discharged=sum(1 for _, r in results if r['status'] == 'holds'),
                            exhaustive=False,
                            functions_encoded=sorted(fns), stubs=sorted(stubs), queries=queries, solver_time_s=round(solver_time, 1),
                            ir_sha256=run.ir_sha, ir_build_s=round(ir_s, 1), translation_validation=tv,
                            bounds=getattr(mod, 'BOUNDS', ''), outside=getattr(mod, 'OUTSIDE', ''),
                            statuses={f"{r['obligation']}:{variant_tag(r['variant'])}": r['status'] for _, r in results}),
              assumptions=list(getattr(mod, 'ASSUMPTIONS', [])), wall_s=round(wall, 1), violations=nviol)
    os.makedirs(os.path.join(VERIF, 'evidence'), exist_ok=True)
    json.dump(ev, open(os.path.join(VERIF, 'evidence', a.prop + '.json'), 'w'), indent=1)

if __name__ == '__main__':
    main()
