#!/bin/bash
# try_seed.sh <seed-dir-with-patch.diff> <property> [extra check args]: apply to /repo, run the check, revert /repo as soon as
# the check has captured the sources (IR + real-code build), so that the tree is mutated for ~30 s only.
set -u
D="$1"; P="$2"; shift 2
L=/tmp/try_seed_${P}_$$.log
while [ -e /tmp/repo_mutated.lock ]; do sleep 1; done; touch /tmp/repo_mutated.lock
git -C /repo apply "$D/patch.diff" || { echo "patch does not apply"; rm -f /tmp/repo_mutated.lock; exit 3; }
cd /verif && TRY_SEED=1 VERIF_REPLAYS_DIR=/tmp/seed_replays ./check "$P" --no-evidence "$@" > $L 2>&1 &
pid=$!
for i in $(seq 1 600); do grep -q "sources captured" $L 2>/dev/null && break; kill -0 $pid 2>/dev/null || break; sleep 0.5; done
git -C /repo checkout -- .; rm -f /tmp/repo_mutated.lock
wait $pid; rc=$?
grep "VIOLATION\|INCONCLUSIVE\|tier=" $L | cut -c1-220 | head -8
echo "exit=$rc"
