#!/bin/bash
# try_seed.sh <seed-dir-with-patch.diff> <property> [extra check args]: apply to /repo, run the check, always revert.
set -u
D="$1"; P="$2"; shift 2
git -C /repo apply "$D/patch.diff" || { echo "patch does not apply"; exit 3; }
cd /verif && ./check "$P" --no-evidence "$@" > /tmp/try_seed_$P.log 2>&1; rc=$?
git -C /repo checkout -- .
grep "VIOLATION\|INCONCLUSIVE\|tier=" /tmp/try_seed_$P.log | cut -c1-220 | head -8
echo "exit=$rc"
