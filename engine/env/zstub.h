#ifndef VERIF_ZSTUB_H
#define VERIF_ZSTUB_H
/* zlib's crc32 replaced by an order-sensitive rolling function (DESIGN.md 2.3); deflate/inflate are not modelled. */
#ifndef REAL
uint64_t crc32(uint64_t h, uint8_t* p, uint32_t n) { uint32_t x = (uint32_t)h; for (uint32_t i = 0; i < n; i++) x = 31u * x + p[i]; return x; }
#endif
#endif
