#ifndef VERIF_ZSTUB_H
#define VERIF_ZSTUB_H
/* zlib's crc32 replaced by an order-sensitive rolling function (DESIGN.md 2.3); deflate/inflate are not modelled. */
#define ZSTUB_CRC_STEP(x, b) ((((uint32_t)(x) << 5) | ((uint32_t)(x) >> 27)) ^ (uint32_t)(b))      /* rotate-xor: order-sensitive, multiplication-free (cheap for the SAT back end) */
#ifndef REAL
uint64_t crc32(uint64_t h, uint8_t* p, uint32_t n) { uint32_t x = (uint32_t)h; for (uint32_t i = 0; i < n; i++) x = ZSTUB_CRC_STEP(x, p[i]); return x; }
/* deflate / inflate are not modelled: CBLOCK records and compression_level > 0 are outside every claim; reaching them fails */
#ifdef ZSTUB_INFLATE
struct S_struct_z_stream_s;
uint32_t inflateInit2_(struct S_struct_z_stream_s* z, uint32_t a, uint8_t* v, uint32_t n) { __CPROVER_assert(0, "zlib inflate reached (CBLOCK is outside the claim)"); return 0; }
uint32_t inflate(struct S_struct_z_stream_s* z, uint32_t f) { __CPROVER_assert(0, "zlib inflate reached"); return 0; }
uint32_t inflateEnd(struct S_struct_z_stream_s* z) { return 0; }
#endif
#ifdef ZSTUB_DEFLATE
uint32_t deflateInit2_(struct S_struct_z_stream_s* z, uint32_t a, uint32_t b, uint32_t c, uint32_t d, uint32_t e, uint8_t* v, uint32_t n) { __CPROVER_assert(0, "zlib deflate reached (compression is outside the claim)"); return 0; }
uint64_t deflateBound(struct S_struct_z_stream_s* z, uint64_t n) { return n; }
uint32_t deflate(struct S_struct_z_stream_s* z, uint32_t f) { __CPROVER_assert(0, "zlib deflate reached"); return 0; }
uint32_t deflateEnd(struct S_struct_z_stream_s* z) { return 0; }
#endif
#endif
#endif
