#ifndef VERIF_HARNESS_H
#define VERIF_HARNESS_H
/* Common harness conventions. One harness source is used four ways:
     (1) cbmc proof           : __CPROVER__ defined, inputs symbolic
     (2) cbmc witness twin    : + -DWITNESS, the final WITNESS_POINT() assertion must be reachable (violated)
     (3) native, translated C : gcc, inputs from a vector (translation validation / replay of the model)
     (4) native, real code    : gcc harness + g++ -fsanitize build of /repo/src (-DREAL), replay of counterexamples
   Every nondeterministic input goes through nd_*(), which logs the value in nd_log[] so that a
   counterexample can be read off the cbmc trace and fed back in modes (3)/(4). */
#include <stdint.h>
#include <stddef.h>

#define ND_MAX 256
uint64_t nd_log[ND_MAX];
int nd_n;

#ifdef __CPROVER__
uint64_t nondet_u64(void);
#define ASSUME(c) __CPROVER_assume(c)
#define CHECK(c, msg) __CPROVER_assert(c, msg)
#define OBS(name, v) ((void)0)
static inline uint64_t nd_raw(void) { uint64_t v = nondet_u64(); if (nd_n < ND_MAX) nd_log[nd_n] = v; nd_n++; return v; }
static inline uint64_t nd_fix(uint64_t v) { if (nd_n - 1 < ND_MAX) nd_log[nd_n - 1] = v; return v; }
#else
#include <stdio.h>
#include <stdlib.h>
#include <string.h>
#if defined(REAL) && defined(WRAP_FILES)
/* the link wraps fopen for the code under test: the harness's own input file must use the real one */
FILE* __real_fopen(const char*, const char*);
#define ND_FOPEN __real_fopen
#else
#define ND_FOPEN fopen
#endif
static FILE* nd_in; static int nd_init_done; static uint64_t nd_rng = 88172645463325252ULL; static int nd_from_file;
static int nd_skip;
static void nd_init(void) {
  nd_init_done = 1;
  const char* f = getenv("ND_INPUT"); if (f) { nd_in = ND_FOPEN(f, "r"); nd_from_file = nd_in != 0; if (!nd_in) { printf("ND_INPUT given but cannot be opened\n"); exit(3); } }
  const char* s = getenv("ND_SEED"); if (s) nd_rng ^= strtoull(s, 0, 10) * 0x9E3779B97F4A7C15ULL;
}
static uint64_t nd_rand(void) {
  nd_rng ^= nd_rng << 13; nd_rng ^= nd_rng >> 7; nd_rng ^= nd_rng << 17;
  uint64_t r = nd_rng * 0x2545F4914F6CDD1DULL;
  /* bias: half of the draws are small, some are boundary patterns */
  switch ((r >> 60) & 7) { case 0: case 1: case 2: return (r >> 8) & 0xf; case 3: return (r >> 8) & 0xff; case 4: return (uint64_t)(-(int64_t)((r >> 8) & 0xf));
    case 5: return (1ULL << ((r >> 8) & 63)) - ((r >> 16) & 1); default: return r; }
}
static uint64_t nd_raw(void) {
  if (!nd_init_done) nd_init();
  uint64_t v;
  if (nd_in) { char buf[64]; if (fgets(buf, sizeof buf, nd_in)) v = strtoull(buf, 0, 10); else { v = 0; } }
  else v = nd_rand();
  if (nd_n < ND_MAX) nd_log[nd_n] = v; nd_n++; return v;
}
static inline uint64_t nd_fix(uint64_t v) { if (nd_n - 1 < ND_MAX) nd_log[nd_n - 1] = v; return v; }
#define ASSUME(c) do { if (!(c)) { printf("ASSUME-FAILED line %d\n", __LINE__); fflush(stdout); exit(77); } } while (0)
#define CHECK(c, msg) do { if (!(c)) { printf("CHECK-FAILED line %d: %s\n", __LINE__, msg); fflush(stdout); exit(1); } } while (0)
#define OBS(name, v) printf("OBS %s=%lld\n", name, (long long)(v))
#define __CPROVER_assume(c) ASSUME(c)
#define __CPROVER_assert(c, m) CHECK(c, m)
#endif

static inline uint8_t nd_u8(void) { return (uint8_t)nd_fix(nd_raw() & 0xff); }
static inline uint16_t nd_u16(void) { return (uint16_t)nd_fix(nd_raw() & 0xffff); }
static inline uint32_t nd_u32(void) { return (uint32_t)nd_fix(nd_raw() & 0xffffffffu); }
static inline uint64_t nd_u64(void) { return nd_raw(); }
static inline int32_t nd_i32(void) { return (int32_t)(uint32_t)nd_fix(nd_raw() & 0xffffffffu); }
static inline int64_t nd_i64(void) { return (int64_t)nd_raw(); }
static inline int nd_bool(void) { return (int)nd_fix(nd_raw() & 1); }
/* integer in [lo, hi] */
static inline int64_t nd_range(int64_t lo, int64_t hi) {
  uint64_t r = nd_raw();
#ifdef __CPROVER__
  int64_t v = (int64_t)r; ASSUME(v >= lo && v <= hi); return v;
#else
  int64_t v = (int64_t)r;
  if (nd_from_file) { ASSUME(v >= lo && v <= hi); return v; }
  v = lo + (int64_t)(r % (uint64_t)(hi - lo + 1)); nd_fix((uint64_t)v); return v;
#endif
}
/* arbitrary double given by its bit pattern */
static inline double nd_double_bits(void) { union { uint64_t u; double d; } x; x.u = nd_raw(); return x.d; }

#ifdef WITNESS
#define WITNESS_POINT() CHECK(0, "WITNESS: end of harness reached (must be violated)")
#else
#define WITNESS_POINT() ((void)0)
#endif

/* number model glue: NUM is the carrier of a C++ double in the generated unit */
#if defined(MODEL_IE) && !defined(REAL)
#define NUM IE_T
#define NUM_OF_INT(i) ((IE_T)(i))
#define NUM_EQ(a, b) ((a) == (b))
#define NUM_TO_I64(a) ((int64_t)(a))
#else
#define NUM double
#define NUM_OF_INT(i) ((double)(i))
#ifdef REAL_TOL
static inline int num_eq_tol(double a, double b) { double d = a - b; if (d < 0) d = -d; double m = a < 0 ? -a : a; return d <= 1e-9 * (1 + m); }
#define NUM_EQ(a, b) num_eq_tol((a), (b))
#else
#define NUM_EQ(a, b) ((a) == (b))
#endif
#define NUM_TO_I64(a) ((int64_t)((a) < 0 ? (a) - 0.5 : (a) + 0.5))   /* nearest integer: real cos(pi/2) is 6e-17, not 0 */
#endif

#endif
