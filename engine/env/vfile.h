#ifndef VERIF_VFILE_H
#define VERIF_VFILE_H
/* In-memory FILE model (DESIGN.md 2.3). Files are selected by the first character of the name:
   'f' -> file 0, 'g' -> file 1, ... Handles are slots in vf_h[]; vf_open_count is the number of
   handles currently open (C18: "releases its handle"). Include after the generated unit.
   In REAL mode (harness linked against the g++ build of /repo/src) the same model is installed
   under the linker's --wrap names so the real code's stdio calls land here. */
#ifndef VF_NFILES
#define VF_NFILES 2
#endif
#ifndef VF_CAP
#define VF_CAP 400
#endif
#define VF_NH 4
#ifdef REAL
#define VFN(n) __wrap_##n
typedef void VF;
#else
#define VFN(n) vf_##n
typedef struct S_struct__IO_FILE VF;
#endif
struct vf_file { uint8_t data[VF_CAP]; uint64_t len; };
struct vf_handle { int file; uint64_t pos; int eof; int open; int mode_w; int err; };
static struct vf_file vf_files[VF_NFILES];
static struct vf_handle vf_h[VF_NH];
static int vf_open_count, vf_fopen_calls, vf_fopen_fail; /* vf_fopen_fail: next fopen returns NULL */
static int vf_bad_use;                    /* use of a closed/invalid handle */
static int vf_is_mine(VF* f) { for (int i = 0; i < VF_NH; i++) if ((void*)f == (void*)&vf_h[i]) return 1; return 0; }
#if defined(REAL) && defined(WRAP_FILES)
/* the real code also writes its log messages to stderr through the same libc entry points: pass those through */
uint64_t __real_fwrite(uint8_t*, uint64_t, uint64_t, VF*); uint32_t __real_fputc(uint32_t, VF*); uint32_t __real_putc(uint32_t, VF*);
#define VF_PASS(call) if (!vf_is_mine(f)) return call
#else
#define VF_PASS(call)
#endif
static struct vf_handle* vf_get(VF* f) {
  for (int i = 0; i < VF_NH; i++) if ((void*)f == (void*)&vf_h[i]) { if (!vf_h[i].open) vf_bad_use = 1; return &vf_h[i]; }
  vf_bad_use = 1; return &vf_h[0];
}
VF* VFN(fopen)(uint8_t* name, uint8_t* mode) {
  vf_fopen_calls++;
  if (vf_fopen_fail) return (VF*)0;
  int k = (int)name[0] - 'f'; if (k < 0 || k >= VF_NFILES) return (VF*)0;
  for (int i = 0; i < VF_NH; i++) if (!vf_h[i].open) {
    vf_h[i].open = 1; vf_h[i].file = k; vf_h[i].pos = 0; vf_h[i].eof = 0; vf_h[i].err = 0; vf_h[i].mode_w = (mode[0] == 'w');
    if (vf_h[i].mode_w) vf_files[k].len = 0;
    vf_open_count++; return (VF*)&vf_h[i]; }
  return (VF*)0;
}
uint32_t VFN(fclose)(VF* f) { struct vf_handle* h = vf_get(f); if (h->open) { h->open = 0; vf_open_count--; } return 0; }
uint64_t VFN(fread)(uint8_t* dst, uint64_t sz, uint64_t n, VF* f) {
  struct vf_handle* h = vf_get(f); struct vf_file* F = &vf_files[h->file];
  uint64_t want = sz * n, avail = h->pos < F->len ? F->len - h->pos : 0, got = want < avail ? want : avail;
#if defined(VF_BULK_FREAD) && !defined(NATIVE)
  /* solver model for records of tens of kilobytes: reads of up to 4 bytes (record headers) are delivered; the payload of a larger read is
     left as it is in the destination - arbitrary as far as the caller can tell - because the obligation is about lengths and positions only */
  if (got <= 4) for (uint64_t i = 0; i < 4; i++) { if (i < got) dst[i] = F->data[h->pos + i]; }
#else
  for (uint64_t i = 0; i < got; i++) dst[i] = F->data[h->pos + i];
#endif
  h->pos += got; if (got < want) h->eof = 1; return sz ? got / sz : 0; }
uint64_t VFN(fwrite)(uint8_t* src, uint64_t sz, uint64_t n, VF* f) {
  VF_PASS(__real_fwrite(src, sz, n, f));
  struct vf_handle* h = vf_get(f); struct vf_file* F = &vf_files[h->file];
  uint64_t want = sz * n; __CPROVER_assert(h->pos + want <= VF_CAP, "file model capacity");
  for (uint64_t i = 0; i < want; i++) F->data[h->pos + i] = src[i];
  h->pos += want; if (h->pos > F->len) F->len = h->pos; return n; }
uint32_t VFN(putc)(uint32_t c, VF* f) { VF_PASS(__real_putc(c, f)); uint8_t b = (uint8_t)c; VFN(fwrite)(&b, 1, 1, f); return c & 0xff; }
uint32_t VFN(fputc)(uint32_t c, VF* f) { VF_PASS(__real_fputc(c, f)); uint8_t b = (uint8_t)c; VFN(fwrite)(&b, 1, 1, f); return c & 0xff; }
uint32_t VFN(feof)(VF* f) { return (uint32_t)vf_get(f)->eof; }
uint32_t VFN(ferror)(VF* f) { return (uint32_t)vf_get(f)->err; }
#if defined(VF_FTELL_SCRIPT) && !defined(REAL)
uint64_t vf_ftell_script(void);          /* token-stream obligations write no bytes: file positions come from the harness (an arbitrary non-decreasing script) */
uint64_t VFN(ftell)(VF* f) { (void)vf_get(f); return vf_ftell_script(); }
#else
uint64_t VFN(ftell)(VF* f) { return vf_get(f)->pos; }
#endif
uint32_t VFN(fseek)(VF* f, uint64_t off, uint32_t whence) { struct vf_handle* h = vf_get(f); int64_t o = (int64_t)off;
  if (whence == 0) h->pos = (uint64_t)o; else if (whence == 1) h->pos = (uint64_t)((int64_t)h->pos + o); else h->pos = (uint64_t)((int64_t)vf_files[h->file].len + o);
  h->eof = 0; return 0; }
uint32_t VFN(fileno)(VF* f) { struct vf_handle* h = vf_get(f); return (uint32_t)(3 + (h - vf_h)); }
uint64_t VFN(pread)(uint32_t fd, uint8_t* dst, uint64_t n, uint64_t off) {
  int i = (int)fd - 3; if (i < 0 || i >= VF_NH || !vf_h[i].open) { vf_bad_use = 1; return (uint64_t)-1; }
  struct vf_file* F = &vf_files[vf_h[i].file]; uint64_t avail = off < F->len ? F->len - off : 0, got = n < avail ? n : avail;
  for (uint64_t k = 0; k < got; k++) dst[k] = F->data[off + k];
  return got; }
#ifndef REAL
/* logging is not the subject: empty bodies */
uint32_t vf_fputs(uint8_t* s, VF* f) { return 0; }
uint32_t vf_fprintf(VF* f, uint8_t* fmt, ...) { return 0; }
uint32_t vf_printf(uint8_t* fmt, ...) { return 0; }
uint32_t vf_puts(uint8_t* s) { return 0; }
VF* vf_stderr; VF* vf_stdout;
#endif
#endif
