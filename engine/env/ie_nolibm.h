#ifndef VERIF_IE_NOLIBM_H
#define VERIF_IE_NOLIBM_H
/* integer-exact model: libm functions that have no exact integer meaning. Code that reaches one of them is outside the
   exact regime of the harness: an assertion fails (the obligation is then inconclusive / mis-stated, never silently passed).
   cos / sin are supplied by the harness as free symbols (harness/C10/common.h). */
#if defined(MODEL_IE) && !defined(REAL)
#define IE_NOLIBM1(name) IE_T ie_##name(IE_T a) { IR_ASSERT(0, "integer-exact model: " #name "() reached"); return 0; }
#ifndef HAVE_IE_SQRT
IE_NOLIBM1(sqrt)
#endif
IE_NOLIBM1(tan) IE_NOLIBM1(acos) IE_NOLIBM1(asin) IE_NOLIBM1(atan) IE_NOLIBM1(exp2) IE_NOLIBM1(log2) IE_NOLIBM1(exp) IE_NOLIBM1(log)
IE_T ie_atan2(IE_T a, IE_T b) { IR_ASSERT(0, "integer-exact model: atan2() reached"); return 0; }
IE_T ie_pow(IE_T a, IE_T b) { IR_ASSERT(0, "integer-exact model: pow() reached"); return 0; }
IE_T ie_hypot(IE_T a, IE_T b) { IR_ASSERT(0, "integer-exact model: hypot() reached"); return 0; }
#endif
#endif
