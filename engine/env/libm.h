#ifndef VERIF_LIBM_H
#define VERIF_LIBM_H
/* libm contracts for the bit-precise model (DESIGN.md 2.3): each as weak as the library guarantees.
   Used through ir2c --rename log2=my_log2,... ; natively (translation validation) they are the real libm. */
#ifndef REAL
#ifdef __CPROVER__
uint64_t nondet_u64(void);
static inline double my_mk2(int64_t e) { /* 2^e, exact; 0 / inf outside the double range */
  if (e > 1023) return 1.0 / 0.0; if (e < -1074) return 0.0;
  if (e < -1022) return bc_i64_f((uint64_t)1 << (e + 1074));
  return bc_i64_f((uint64_t)(e + 1023) << 52); }
/* log2 of a positive normal double with unbiased exponent e and mantissa m: e <= r <= e+1; exact for powers of two;
   r == e only if the top 40 mantissa bits are zeros, r == e+1 only if they are ones (error < 1 ulp, |e| < 2^10).
   -DLOG2_TIGHT (used only to look for a counterexample that the real libm reproduces): r == e+1 exactly when
   |e+1| >= 64 and the mantissa is within 2 of all-ones, r == e exactly when |e| >= 64 and the mantissa is <= 2. */
double my_log2(double v) {
  uint64_t b = bc_f_i64(v); int64_t e = (int64_t)((b >> 52) & 0x7ff) - 1023; uint64_t m = b & 0xfffffffffffffULL;
  __CPROVER_assert(v > 0 && ((b >> 52) & 0x7ff) != 0 && ((b >> 52) & 0x7ff) != 0x7ff, "log2 contract: positive normal argument");
  if (m == 0) return (double)e;
  double r = bc_i64_f(nondet_u64());
  __CPROVER_assume(r >= (double)e && r <= (double)(e + 1));
#ifdef LOG2_TIGHT
  { int up = (e + 1 >= 64 || e + 1 <= -64) && m >= 0xffffffffffffeULL; int dn = (e >= 64 || e <= -64) && m <= 2;
    __CPROVER_assume((r == (double)(e + 1)) == up); __CPROVER_assume((r == (double)e) == dn); }
#else
  if ((m >> 12) != 0xffffffffffULL) __CPROVER_assume(r < (double)(e + 1));
  if ((m >> 12) != 0) __CPROVER_assume(r > (double)e);
#endif
  return r; }
double my_ceil(double x) { __CPROVER_assert(x > -9.0e15 && x < 9.0e15, "ceil contract range"); double t = (double)(int64_t)x; if (t < x) t += 1.0; return t; }
double my_floor(double x) { __CPROVER_assert(x > -9.0e15 && x < 9.0e15, "floor contract range"); double t = (double)(int64_t)x; if (t > x) t -= 1.0; return t; }
double my_trunc(double x) { if (!(x > -9.0e15 && x < 9.0e15)) return x; /* |x| >= 2^53: already integral (or inf/nan) */ return (double)(int64_t)x; }
double my_fabs(double x) { return x < 0 ? -x : (x == 0 ? 0.0 : x); }
double my_exp2(double y) { __CPROVER_assert(y == (double)(int64_t)y, "exp2 contract: integral argument"); return my_mk2((int64_t)y); }
double my_pow(double b, double y) { __CPROVER_assert(b == 16.0 && y == (double)(int64_t)y, "pow contract: pow(16, integer)"); return my_mk2(4 * (int64_t)y); }
int64_t my_llround(double x) { __CPROVER_assert(x > -9.0e18 && x < 9.0e18, "llround contract range"); int64_t t = (int64_t)x; double d = x - (double)t; if (d >= 0.5) t++; else if (d <= -0.5) t--; return t; }
int64_t my_lround(double x) { return my_llround(x); }
#else
#include <math.h>
double my_log2(double v) { return log2(v); }
double my_ceil(double v) { return ceil(v); }
double my_floor(double v) { return floor(v); }
double my_trunc(double v) { return trunc(v); }
double my_fabs(double v) { return fabs(v); }
double my_exp2(double v) { return exp2(v); }
double my_pow(double a, double b) { return pow(a, b); }
int64_t my_llround(double x) { return llround(x); }
int64_t my_lround(double x) { return lround(x); }
#endif
#endif
#endif
