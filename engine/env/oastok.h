#ifndef VERIF_OASTOK_H
#define VERIF_OASTOK_H
/* OASIS token stream (DESIGN.md 3.10): the integer / delta / real codecs of src/oasis.cpp -- proved to be inverse
   bijections between byte strings and values under C19 -- are replaced by stubs that append / pop typed tokens.
   Record ids, info bytes and string bytes are K_BYTE tokens. A reader that asks for a different kind of token
   than the writer (or the specification encoder) produced at that position fails an assertion: the kinds ARE the grammar.
   Only for the translated unit (stubbed functions are listed in the obligation); REAL mode uses the real codecs. */
#ifndef REAL
enum { K_BYTE = 1, K_UINT, K_INT, K_2D, K_3D, K_GD, K_REAL, K_REALP = K_REAL /* payload of a real whose type byte was read separately (property values): the same token in the model */ };
#ifndef TOK_MAX
#define TOK_MAX 64
#endif
struct oas_tok { uint8_t kind; uint64_t a, b; };
static struct oas_tok TOK[TOK_MAX]; static int tok_n, tok_k; static int tok_kind_error;
typedef struct S_struct_gdstk__OasisStream TokStream;
static void tok_put(uint8_t kind, uint64_t a, uint64_t b) { __CPROVER_assert(tok_n < TOK_MAX, "token stream capacity"); if (tok_n < TOK_MAX) { TOK[tok_n].kind = kind; TOK[tok_n].a = a; TOK[tok_n].b = b; tok_n++; } }
static struct oas_tok tok_get(TokStream* s, uint8_t kind) {
  struct oas_tok t = {0, 0, 0};
  if (tok_k >= tok_n) { if (s->f7 == 0) s->f7 = 12 /* InputFileError: read past the end */; return t; }
  t = TOK[tok_k++];
  if (t.kind != kind) { tok_kind_error = 1; __CPROVER_assert(0, "token kind: reader and writer disagree on the grammar at this position"); }
  return t;
}
/* writers */
uint32_t _ZN5gdstk10oasis_putcEiRNS_11OasisStreamE(uint32_t c, TokStream* s) { tok_put(K_BYTE, c & 0xff, 0); return c & 0xff; }
uint64_t _ZN5gdstk11oasis_writeEPKvmmRNS_11OasisStreamE(uint8_t* p, uint64_t sz, uint64_t n, TokStream* s) { for (uint64_t i = 0; i < sz * n; i++) tok_put(K_BYTE, p[i], 0); return n; }
void _ZN5gdstk28oasis_write_unsigned_integerERNS_11OasisStreamEm(TokStream* s, uint64_t v) { tok_put(K_UINT, v, 0); }
void _ZN5gdstk19oasis_write_integerERNS_11OasisStreamEl(TokStream* s, uint64_t v) { tok_put(K_INT, v, 0); }
void _ZN5gdstk18oasis_write_2deltaERNS_11OasisStreamEll(TokStream* s, uint64_t x, uint64_t y) { __CPROVER_assert(x == 0 || y == 0, "2-delta written with a Manhattan vector"); tok_put(K_2D, x, y); }
void _ZN5gdstk18oasis_write_3deltaERNS_11OasisStreamEll(TokStream* s, uint64_t x, uint64_t y) { __CPROVER_assert(x == 0 || y == 0 || x == y || x == (uint64_t)0 - y, "3-delta written with an octangular vector"); tok_put(K_3D, x, y); }
void _ZN5gdstk18oasis_write_gdeltaERNS_11OasisStreamEll(TokStream* s, uint64_t x, uint64_t y) { tok_put(K_GD, x, y); }
/* readers */
uint32_t _ZN5gdstk10oasis_readEPvmmRNS_11OasisStreamE(uint8_t* p, uint64_t sz, uint64_t n, TokStream* s) { for (uint64_t i = 0; i < sz * n; i++) { struct oas_tok t = tok_get(s, K_BYTE); p[i] = (uint8_t)t.a; } return s->f7; }
uint64_t _ZN5gdstk27oasis_read_unsigned_integerERNS_11OasisStreamE(TokStream* s) { return tok_get(s, K_UINT).a; }
uint64_t _ZN5gdstk18oasis_read_integerERNS_11OasisStreamE(TokStream* s) { return tok_get(s, K_INT).a; }
void _ZN5gdstk17oasis_read_2deltaERNS_11OasisStreamERlS2_(TokStream* s, uint64_t* x, uint64_t* y) { struct oas_tok t = tok_get(s, K_2D); *x = t.a; *y = t.b; }
void _ZN5gdstk17oasis_read_3deltaERNS_11OasisStreamERlS2_(TokStream* s, uint64_t* x, uint64_t* y) { struct oas_tok t = tok_get(s, K_3D); *x = t.a; *y = t.b; }
void _ZN5gdstk17oasis_read_gdeltaERNS_11OasisStreamERlS2_(TokStream* s, uint64_t* x, uint64_t* y) { struct oas_tok t = tok_get(s, K_GD); *x = t.a; *y = t.b; }
#ifdef OASTOK_STRINGS_AND_REALS
/* strings: a K_UINT length followed by that many K_BYTE tokens; reals: one K_REAL token carrying the double's bits
   (the byte-level real codec is C19: oas_real_roundtrip / oas_real_forms_vs_reference) */
uint8_t* _ZN5gdstk17oasis_read_stringERNS_11OasisStreamEbRm(TokStream* s, uint8_t append_null, uint64_t* len) {
  uint64_t n = tok_get(s, K_UINT).a; uint8_t* b;
  if (append_null & 1) b = malloc(n + 1); else if (n > 0) b = malloc(n); else { *len = 0; return 0; }
  for (uint64_t i = 0; i < n; i++) b[i] = (uint8_t)tok_get(s, K_BYTE).a;
  if (append_null & 1) b[n++] = 0;
  *len = n; return b;
}
double _ZN5gdstk15oasis_read_realERNS_11OasisStreamE(TokStream* s) { return bc_i64_f(tok_get(s, K_REAL).a); }
double _ZN5gdstk23oasis_read_real_by_typeERNS_11OasisStreamENS_13OasisDataTypeE(TokStream* s, uint8_t type) { return bc_i64_f(tok_get(s, K_REAL).a); }
void _ZN5gdstk16oasis_write_realERNS_11OasisStreamEd(TokStream* s, double v) { tok_put(K_REAL, bc_f_i64(v), 0); }
#endif
#else
/* REAL mode: the same harness calls (tok_put of typed values) lay the file down as BYTES, encoded as the OASIS specification
   defines each kind - unsigned / signed integer, 2-, 3- and g-delta (form 1), real (type 7: IEEE double), strings as length +
   bytes - appended to the in-memory file 0 the real reader then opens through the wrapped stdio. Include after vfile.h. */
enum { K_BYTE = 1, K_UINT, K_INT, K_2D, K_3D, K_GD, K_REAL, K_REALP };
static int tok_n, tok_k, tok_kind_error;
static void tok_b(uint8_t b) { if (vf_files[0].len < VF_CAP) vf_files[0].data[vf_files[0].len++] = b; }
static void tok_u(uint64_t v) { do { uint8_t b = (uint8_t)(v & 0x7f); v >>= 7; if (v) b |= 0x80; tok_b(b); } while (v); }
static uint64_t tok_mag(uint64_t a, int* neg) { int64_t s = (int64_t)a; *neg = s < 0; return (uint64_t)(s < 0 ? -s : s); }
static void tok_put(uint8_t kind, uint64_t a, uint64_t b) { int na, nb; uint64_t ma = tok_mag(a, &na), mb = tok_mag(b, &nb);
  switch (kind) {
    case K_BYTE: tok_b((uint8_t)a); break;
    case K_UINT: tok_u(a); break;
    case K_INT: tok_u((ma << 1) | (uint64_t)na); break;
    case K_2D: if (mb == 0) tok_u((ma << 2) | (na ? 2 : 0)); else tok_u((mb << 2) | (nb ? 3 : 1)); break;
    case K_3D: { unsigned dir = mb == 0 ? (na ? 2 : 0) : ma == 0 ? (nb ? 3 : 1) : (!na && !nb) ? 4 : (na && !nb) ? 5 : (na && nb) ? 6 : 7; tok_u(((ma ? ma : mb) << 3) | dir); } break;
    case K_GD: tok_u((ma << 2) | (na ? 2 : 0) | 1); tok_u((mb << 1) | (uint64_t)nb); break;
    case K_REAL: tok_b(7); for (int i = 0; i < 8; i++) tok_b((uint8_t)(a >> (8 * i))); break;
    case K_REALP: for (int i = 0; i < 8; i++) tok_b((uint8_t)(a >> (8 * i))); break;      /* type byte (7) already written as a K_BYTE */
  } }
#endif
#endif
