#ifndef VERIF_UFDIV_H
#define VERIF_UFDIV_H
/* IEEE-754 division as an uninterpreted function (ir2c --rename __fdiv=uf_div): same operand bits -> same result,
   and the trusted lemma sign(a/b) = sign(a) xor sign(b), |a/b| = |a|/|b|. Proofs that hold for every such
   function hold for the correctly rounded division; natively it is the real division. */
#ifndef REAL
#if defined(__CPROVER__) && !defined(REAL_DIV)
uint64_t nondet_u64(void);
#define UF_MAX 6
static uint64_t ufA[UF_MAX], ufB[UF_MAX], ufR[UF_MAX]; static int ufn;
double uf_div(double a, double b) {
  uint64_t ab = bc_f_i64(a), bb = bc_f_i64(b); uint64_t sign = (ab ^ bb) & 0x8000000000000000ULL;
  ab &= 0x7fffffffffffffffULL; bb &= 0x7fffffffffffffffULL;
  for (int i = 0; i < UF_MAX; i++) if (i < ufn && ufA[i] == ab && ufB[i] == bb) return bc_i64_f(ufR[i] | sign);
  __CPROVER_assert(ufn < UF_MAX, "uf_div table capacity");
  uint64_t r = nondet_u64() & 0x7fffffffffffffffULL;
  { /* special values as IEEE-754 defines them; zero / infinity only where under-/overflow is possible at all */
    uint64_t fa = ab >> 52, fb = bb >> 52; uint64_t ma = ab & 0xfffffffffffffULL, mb = bb & 0xfffffffffffffULL;
    int a_nan = fa == 0x7ff && ma, b_nan = fb == 0x7ff && mb, a_inf = fa == 0x7ff && !ma, b_inf = fb == 0x7ff && !mb, a_z = ab == 0, b_z = bb == 0;
    const uint64_t INF = 0x7ff0000000000000ULL, QNAN = 0x7ff8000000000000ULL;
    if (a_nan || b_nan || (a_z && b_z) || (a_inf && b_inf)) r = QNAN;
    else if (a_z || b_inf) r = 0;
    else if (b_z || a_inf) r = INF;
    else {
      __CPROVER_assume(r <= INF);                                                           /* not NaN */
      if (!(fa == 0 || (int64_t)fa - (int64_t)fb <= -1020)) __CPROVER_assume(r != 0);       /* no underflow to zero */
      if (!(fb == 0 || (int64_t)fa - (int64_t)fb >= 1020)) __CPROVER_assume(r != INF);      /* no overflow */
      if (ab == bb) r = 0x3ff0000000000000ULL;                                              /* x / x == 1 */
      if (bb == 0x3ff0000000000000ULL) r = ab;                                              /* x / 1 == x */
    } }
  ufA[ufn] = ab; ufB[ufn] = bb; ufR[ufn] = r; ufn++;
  return bc_i64_f(r | sign);
}
#else
double uf_div(double a, double b) { return a / b; }
#endif
#endif
#endif
