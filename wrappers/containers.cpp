// extern "C" entry points instantiating gdstk's header-only containers and sort templates with the
// element types the harnesses use (C20). Nothing here adds behaviour: each wrapper is one call.
#include <gdstk/gdstk.hpp>
using namespace gdstk;
typedef bool (*lt_i64)(const int64_t&, const int64_t&);
extern "C" {
// Map<uint64_t>
__attribute__((noinline)) void w_map_set(Map<uint64_t>* m, const char* k, uint64_t v) { m->set(k, v); }
__attribute__((noinline)) uint64_t w_map_get(Map<uint64_t>* m, const char* k) { return m->get(k); }
__attribute__((noinline)) bool w_map_has_key(Map<uint64_t>* m, const char* k) { return m->has_key(k); }
__attribute__((noinline)) bool w_map_del(Map<uint64_t>* m, const char* k) { return m->del(k); }
__attribute__((noinline)) void w_map_resize(Map<uint64_t>* m, uint64_t n) { m->resize(n); }
__attribute__((noinline)) void w_map_clear(Map<uint64_t>* m) { m->clear(); }
__attribute__((noinline)) void w_map_copy_from(Map<uint64_t>* m, const Map<uint64_t>* src) { m->copy_from(*src); }
__attribute__((noinline)) MapItem<uint64_t>* w_map_next(Map<uint64_t>* m, const MapItem<uint64_t>* cur) { return m->next(cur); }
__attribute__((noinline)) void w_map_to_array(Map<uint64_t>* m, Array<uint64_t>* out) { m->to_array(*out); }
// Set<Tag>
__attribute__((noinline)) void w_set_add(Set<Tag>* s, Tag v) { s->add(v); }
__attribute__((noinline)) bool w_set_has(Set<Tag>* s, Tag v) { return s->has_value(v); }
__attribute__((noinline)) bool w_set_del(Set<Tag>* s, Tag v) { return s->del(v); }
__attribute__((noinline)) void w_set_resize(Set<Tag>* s, uint64_t n) { s->resize(n); }
__attribute__((noinline)) void w_set_clear(Set<Tag>* s) { s->clear(); }
__attribute__((noinline)) void w_set_copy_from(Set<Tag>* s, const Set<Tag>* src) { s->copy_from(*src); }
__attribute__((noinline)) SetItem<Tag>* w_set_next(Set<Tag>* s, const SetItem<Tag>* cur) { return s->next(cur); }
__attribute__((noinline)) void w_set_to_array(Set<Tag>* s, Array<Tag>* out) { s->to_array(*out); }
// TagMap
__attribute__((noinline)) void w_tagmap_set(TagMap* m, Tag k, Tag v) { m->set(k, v); }
__attribute__((noinline)) Tag w_tagmap_get(TagMap* m, Tag k) { return m->get(k); }
__attribute__((noinline)) bool w_tagmap_has_key(TagMap* m, Tag k) { return m->has_key(k); }
__attribute__((noinline)) bool w_tagmap_del(TagMap* m, Tag k) { return m->del(k); }
__attribute__((noinline)) void w_tagmap_resize(TagMap* m, uint64_t n) { m->resize(n); }
__attribute__((noinline)) void w_tagmap_copy_from(TagMap* m, const TagMap* src) { m->copy_from(*src); }
__attribute__((noinline)) TagMapItem* w_tagmap_next(TagMap* m, const TagMapItem* cur) { return m->next(cur); }
// StyleMap
__attribute__((noinline)) void w_style_set(StyleMap* m, Tag k, const char* v) { m->set(k, v); }
__attribute__((noinline)) const char* w_style_get(StyleMap* m, Tag k) { return m->get(k); }
__attribute__((noinline)) bool w_style_del(StyleMap* m, Tag k) { return m->del(k); }
__attribute__((noinline)) void w_style_resize(StyleMap* m, uint64_t n) { m->resize(n); }
__attribute__((noinline)) void w_style_clear(StyleMap* m) { m->clear(); }
__attribute__((noinline)) void w_style_copy_from(StyleMap* m, const StyleMap* src) { m->copy_from(*src); }
__attribute__((noinline)) Style* w_style_next(StyleMap* m, const Style* cur) { return m->next(cur); }
// sorting, T = int64_t with a caller-supplied strict ordering
__attribute__((noinline)) void w_sort(int64_t* a, int64_t n, lt_i64 lt) { sort(a, n, lt); }
__attribute__((noinline)) void w_sort_default(int64_t* a, int64_t n) { sort(a, n); }
__attribute__((noinline)) void w_insertion_sort(int64_t* a, int64_t n, lt_i64 lt) { insertion_sort(a, n, lt); }
__attribute__((noinline)) void w_heap_sort(int64_t* a, int64_t n, lt_i64 lt) { heap_sort(a, n, lt); }
__attribute__((noinline)) int64_t w_partition(int64_t* a, int64_t n, lt_i64 lt) { return partition(a, n, lt); }
__attribute__((noinline)) void w_intro_sort(int64_t* a, int64_t n, int64_t depth, lt_i64 lt) { intro_sort(a, n, depth, lt); }
// Array<int64_t>
__attribute__((noinline)) void w_arr_append(Array<int64_t>* a, int64_t v) { a->append(v); }
__attribute__((noinline)) void w_arr_insert(Array<int64_t>* a, uint64_t i, int64_t v) { a->insert(i, v); }
__attribute__((noinline)) void w_arr_remove(Array<int64_t>* a, uint64_t i) { a->remove(i); }
__attribute__((noinline)) void w_arr_remove_unordered(Array<int64_t>* a, uint64_t i) { a->remove_unordered(i); }
__attribute__((noinline)) bool w_arr_remove_item(Array<int64_t>* a, int64_t v) { return a->remove_item(v); }
__attribute__((noinline)) uint64_t w_arr_index(Array<int64_t>* a, int64_t v) { return a->index(v); }
__attribute__((noinline)) bool w_arr_contains(Array<int64_t>* a, int64_t v) { return a->contains(v); }
__attribute__((noinline)) void w_arr_extend(Array<int64_t>* a, const Array<int64_t>* b) { a->extend(*b); }
__attribute__((noinline)) void w_arr_copy_from(Array<int64_t>* a, const Array<int64_t>* b) { a->copy_from(*b); }
__attribute__((noinline)) void w_arr_ensure_slots(Array<int64_t>* a, uint64_t n) { a->ensure_slots(n); }
__attribute__((noinline)) void w_arr_clear(Array<int64_t>* a) { a->clear(); }
}
// property lists (overloads resolved here so harnesses need not depend on C++ overload mangling)
extern "C" {
__attribute__((noinline)) void w_prop_set_u64(Property** p, const char* name, uint64_t v, bool create_new) { set_property(*p, name, v, create_new); }
__attribute__((noinline)) void w_prop_set_i64(Property** p, const char* name, int64_t v, bool create_new) { set_property(*p, name, v, create_new); }
__attribute__((noinline)) void w_prop_set_real(Property** p, const char* name, double v, bool create_new) { set_property(*p, name, v, create_new); }
__attribute__((noinline)) void w_prop_set_str(Property** p, const char* name, const char* v, bool create_new) { set_property(*p, name, v, create_new); }
__attribute__((noinline)) void w_prop_set_bytes(Property** p, const char* name, const uint8_t* b, uint64_t n, bool create_new) { set_property(*p, name, b, n, create_new); }
__attribute__((noinline)) uint64_t w_prop_remove(Property** p, const char* name, bool all) { return remove_property(*p, name, all); }
__attribute__((noinline)) PropertyValue* w_prop_get(Property* p, const char* name) { return get_property(p, name); }
__attribute__((noinline)) void w_prop_set_gds(Property** p, uint16_t attr, const char* v) { set_gds_property(*p, attr, v); }
__attribute__((noinline)) PropertyValue* w_prop_get_gds(Property* p, uint16_t attr) { return get_gds_property(p, attr); }
__attribute__((noinline)) bool w_prop_remove_gds(Property** p, uint16_t attr) { return remove_gds_property(*p, attr); }
__attribute__((noinline)) Property* w_prop_copy(const Property* p) { return properties_copy(p); }
__attribute__((noinline)) void w_prop_clear(Property** p) { properties_clear(*p); }
}
