/* C09: Polygon::bounding_box and Label::bounding_box: smallest axis-aligned box containing every vertex (label position)
   under EVERY offset of the repetition; an empty polygon reports an inverted box. */
#include "prologue.h"
#include "C11/rep.h"
#include "C10/common.h"
typedef struct S_struct_gdstk__Polygon Poly;
typedef struct S_struct_gdstk__Label Label;
typedef struct S_struct_gdstk__Vec2 V2;
#ifndef NV
#define NV 2
#endif
#define RR 3
int main(void) {
  int64_t vx[NV + 1], vy[NV + 1];
  V2 mn = {0}, mx = {0};
#if ELEM == 0
  Poly e = {0}; NUM* pts = malloc(sizeof(NUM) * 2 * (NV + 1));
  for (int i = 0; i < NV; i++) { vx[i] = nd_range(-RR, RR); vy[i] = nd_range(-RR, RR); pts[2 * i] = NUM_OF_INT(vx[i]); pts[2 * i + 1] = NUM_OF_INT(vy[i]); }
  e.f1.f0 = NV; e.f1.f1 = NV; e.f1.f2 = (void*)pts;
  rep_build(&e.f2, KIND, A, B, RR);
  _ZNK5gdstk7Polygon12bounding_boxERNS_4Vec2ES2_(&e, &mn, &mx);
  int nv = NV;
#else
  Label e = {0}; vx[0] = nd_range(-RR, RR); vy[0] = nd_range(-RR, RR); VX(e.f2) = NUM_OF_INT(vx[0]); VY(e.f2) = NUM_OF_INT(vy[0]);
  rep_build(&e.f7, KIND, A, B, RR);
  _ZNK5gdstk5Label12bounding_boxERNS_4Vec2ES2_(&e, &mn, &mx);
  int nv = 1;
#endif
  int64_t lox = 1000, hix = -1000, loy = 1000, hiy = -1000; int any = 0;
  int noff = KIND == 0 ? 1 : rep_n; if (KIND == 0) { rep_ex[0] = rep_ey[0] = 0; }
  /* a lattice with zero columns or rows denotes no copy at all: gdstk then reports the element's own box (the repetition adds nothing) */
  if (noff == 0) { noff = 1; rep_ex[0] = rep_ey[0] = 0; }
  for (int i = 0; i < nv; i++) for (int k = 0; k < REP_MAXOFF; k++) if (k < noff) { int64_t x = vx[i] + rep_ex[k], y = vy[i] + rep_ey[k]; any = 1;
    if (x < lox) lox = x; if (x > hix) hix = x; if (y < loy) loy = y; if (y > hiy) hiy = y; }
  if (any) { OBS("minx", NUM_TO_I64(VX(mn))); OBS("miny", NUM_TO_I64(VY(mn))); OBS("maxx", NUM_TO_I64(VX(mx))); OBS("maxy", NUM_TO_I64(VY(mx)));
    CHECK(NUM_EQ(VX(mn), NUM_OF_INT(lox)) && NUM_EQ(VY(mn), NUM_OF_INT(loy)) && NUM_EQ(VX(mx), NUM_OF_INT(hix)) && NUM_EQ(VY(mx), NUM_OF_INT(hiy)), "bounding box == min/max over every vertex under every offset");
  } else {
    CHECK(VX(mn) > VX(mx) && VY(mn) > VY(mx), "an empty polygon reports an inverted box");
  }
  WITNESS_POINT();
  return 0;
}
