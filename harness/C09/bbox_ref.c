/* C09: Reference::bounding_box / Cell::bounding_box on a two-level hierarchy: the box of a reference is the min/max over the
   fully transformed (magnify, reflect, rotate, translate) and fully repeated geometry of the referenced cell; results are the same
   with a fresh and with a shared cache, and a second query on the unchanged cell agrees with the first.
   ROT0 = 1: rotation 0 (bounding-box-corner shortcut); ROT0 = 0: any other rotation, cos/sin free symbols (child hull branch).
   gdstk::convex_hull (qhull) is replaced by the identity hull (all points): the box does not depend on which valid hull is used. */
#include "prologue.h"
#define REP_MAXOFF 5
#include "C11/rep.h"
#include "C10/common.h"
#include "ie_nolibm.h"
typedef struct S_struct_gdstk__Polygon Poly;
typedef struct S_struct_gdstk__Label Label;
typedef struct S_struct_gdstk__Cell Cell;
typedef struct S_struct_gdstk__Reference Ref;
typedef struct S_struct_gdstk__Vec2 V2;
typedef ARGT__ZNK5gdstk9Reference12bounding_boxERNS_4Vec2ES2_RNS_3MapINS_12GeometryInfoEEE_3 Cache;
typedef ARGT__ZN5gdstk11convex_hullENS_5ArrayINS_4Vec2EEERS2__0 VArr;
#define NV 2
#define RR 2
#ifndef REAL
/* identity hull: result gets every input point */
void _ZN5gdstk11convex_hullENS_5ArrayINS_4Vec2EEERS2_(VArr* pts, VArr* result) {
  uint64_t n = pts->f1; if (n == 0) return;
  NUM* d = malloc(sizeof(NUM) * 2 * (result->f1 + n)); NUM* s0 = (NUM*)result->f2; NUM* s1 = (NUM*)pts->f2;
  for (uint64_t i = 0; i < 2 * result->f1; i++) d[i] = s0[i];
  for (uint64_t i = 0; i < 2 * n; i++) d[2 * result->f1 + i] = s1[i];
  if (result->f2) free(result->f2);
  result->f2 = (void*)d; result->f1 += n; result->f0 = result->f1;
}
#endif
/* is_multiple_of_pi_over_2 (src/utils.cpp) by contract: the harness uses rotation 0 for "multiple" (m = 0) and the integer 1 for
   "any other angle"; the real function is decided on bit-precise doubles by the obligation pi_over_2_classifier. */
#ifndef REAL
uint8_t _ZN5gdstk24is_multiple_of_pi_over_2EdRl(NUM angle, uint64_t* m) { if (NUM_EQ(angle, NUM_OF_INT(0))) { *m = 0; return 1; } return 0; }
#endif
int main(void) {
  /* child cell "B": one polygon (NV vertices) and one label */
  OI vx[NV + 1], vy[NV + 1]; Poly poly = {0}; NUM* pts = malloc(sizeof(NUM) * 2 * NV);
  for (int i = 0; i < NV; i++) { vx[i] = (OI)nd_range(-RR, RR); vy[i] = (OI)nd_range(-RR, RR); pts[2 * i] = NUM_OF_INT(vx[i]); pts[2 * i + 1] = NUM_OF_INT(vy[i]); }
  poly.f1.f0 = NV; poly.f1.f1 = NV; poly.f1.f2 = (void*)pts;
  Label lab = {0}; vx[NV] = (OI)nd_range(-RR, RR); vy[NV] = (OI)nd_range(-RR, RR); VX(lab.f2) = NUM_OF_INT(vx[NV]); VY(lab.f2) = NUM_OF_INT(vy[NV]);
  Cell child = {0}; uint8_t cname[2] = {'B', 0}; child.f0 = cname;
  Poly* pa[1] = {&poly}; Label* la[1] = {&lab};
  child.f1.f0 = 1; child.f1.f1 = 1; child.f1.f2 = (void*)pa; child.f5.f0 = 1; child.f5.f1 = 1; child.f5.f2 = (void*)la;
  /* reference to it */
  Ref ref = {0}; ref.f0 = 0 /* Cell */; *(Cell**)&ref.f1 = &child;
  OI ox = (OI)nd_range(-RR, RR), oy = (OI)nd_range(-RR, RR), m = (OI)nd_range(-2, 2);
  VX(ref.f2) = NUM_OF_INT(ox); VY(ref.f2) = NUM_OF_INT(oy); ref.f4 = NUM_OF_INT(m); ref.f5 = REFL;
  ref.f3 = pick_rotation(ROT0);
  rep_build(&ref.f6, KIND, A, B, RR);
  int noff = KIND == 0 ? 1 : rep_n; if (KIND == 0) { rep_ex[0] = rep_ey[0] = 0; }
  Cache cache = {0};
#if PRE
  /* any order of cached queries: the child's bounding box is already in the cache (as after an unrotated sibling reference
     or an earlier Cell::bounding_box on a shared cache). The cache state is built directly: capacity 8, one entry for "B". */
  { typedef ARGT__ZNK5gdstk4Cell12bounding_boxERNS_3MapINS_12GeometryInfoEEE_2 CacheT;
    struct S_struct_gdstk__MapItem* it = calloc(8, sizeof(struct S_struct_gdstk__MapItem));
    uint64_t h = 0xcbf29ce484222325ULL; h ^= (uint64_t)'B'; h *= 0x100000001b3ULL;
    uint8_t* key = malloc(2); key[0] = 'B'; key[1] = 0;
    OI blx = 10000, bhx = -10000, bly = 10000, bhy = -10000;
    for (int i = 0; i <= NV; i++) { if (vx[i] < blx) blx = vx[i]; if (vx[i] > bhx) bhx = vx[i]; if (vy[i] < bly) bly = vy[i]; if (vy[i] > bhy) bhy = vy[i]; }
    struct S_struct_gdstk__MapItem* e = &it[h % 8]; e->f0 = key;
    VX(e->f1.f1) = NUM_OF_INT(blx); VY(e->f1.f1) = NUM_OF_INT(bly); VX(e->f1.f2) = NUM_OF_INT(bhx); VY(e->f1.f2) = NUM_OF_INT(bhy); e->f1.f3 = 0; e->f1.f4 = 1;
    cache.f0 = 8; cache.f1 = 1; cache.f2 = it; }
#endif
  V2 mn = {0}, mx = {0};
  _ZNK5gdstk9Reference12bounding_boxERNS_4Vec2ES2_RNS_3MapINS_12GeometryInfoEEE(&ref, &mn, &mx, &cache);
  OI lox = 10000, hix = -10000, loy = 10000, hiy = -10000; OI r = REFL ? -1 : 1;
  for (int i = 0; i <= NV; i++) { OI qx = m * vx[i], qy = r * m * vy[i]; OI px = qx * C_ - qy * S_ + ox, py = qx * S_ + qy * C_ + oy;
    for (int k = 0; k < REP_MAXOFF; k++) if (k < noff) { OI x = px + (OI)rep_ex[k], y = py + (OI)rep_ey[k]; if (x < lox) lox = x; if (x > hix) hix = x; if (y < loy) loy = y; if (y > hiy) hiy = y; } }
  OBS("minx", NUM_TO_I64(VX(mn))); OBS("miny", NUM_TO_I64(VY(mn))); OBS("maxx", NUM_TO_I64(VX(mx))); OBS("maxy", NUM_TO_I64(VY(mx)));
#if OP == 0
  if (noff > 0) CHECK(NUM_EQ(VX(mn), NUM_OF_INT(lox)) && NUM_EQ(VY(mn), NUM_OF_INT(loy)) && NUM_EQ(VX(mx), NUM_OF_INT(hix)) && NUM_EQ(VY(mx), NUM_OF_INT(hiy)),
        "reference bounding box == min/max over the transformed geometry under every repetition offset");
#else
  /* second query with the now filled cache, and the cache-free entry point: same answer */
  V2 mn2 = {0}, mx2 = {0}, mn3 = {0}, mx3 = {0};
  _ZNK5gdstk9Reference12bounding_boxERNS_4Vec2ES2_RNS_3MapINS_12GeometryInfoEEE(&ref, &mn2, &mx2, &cache);
  CHECK(NUM_EQ(VX(mn2), VX(mn)) && NUM_EQ(VY(mn2), VY(mn)) && NUM_EQ(VX(mx2), VX(mx)) && NUM_EQ(VY(mx2), VY(mx)), "cached query agrees with the first");
  _ZNK5gdstk9Reference12bounding_boxERNS_4Vec2ES2_(&ref, &mn3, &mx3);
  CHECK(NUM_EQ(VX(mn3), VX(mn)) && NUM_EQ(VY(mn3), VY(mn)) && NUM_EQ(VX(mx3), VX(mx)) && NUM_EQ(VY(mx3), VY(mx)), "query without a shared cache agrees");
#endif
  WITNESS_POINT();
  return 0;
}
