/* C09: Reference::repeat_and_transform (the step that feeds Reference::convex_hull and the non-90-degree branch of
   Reference::bounding_box): the point set it produces must reach, in each of the eight axis and diagonal directions, as far as
   the fully transformed child points under EVERY repetition offset do - a necessary condition for "the hull / box contains all
   of the geometry" that does not depend on qhull. */
#include "prologue.h"
#define REP_MAXOFF 7
#include "C11/rep.h"
#include "C10/common.h"
#include "ie_nolibm.h"
typedef struct S_struct_gdstk__Reference Ref;
typedef ARGT__ZNK5gdstk9Reference20repeat_and_transformERNS_5ArrayINS_4Vec2EEE_1 VArr;
#ifndef NPT
#define NPT 1
#endif
#define RR 2
int main(void) {
  OI vx[NPT], vy[NPT]; NUM* pts = malloc(sizeof(NUM) * 2 * NPT);
  for (int i = 0; i < NPT; i++) { vx[i] = (OI)nd_range(-RR, RR); vy[i] = (OI)nd_range(-RR, RR); pts[2 * i] = NUM_OF_INT(vx[i]); pts[2 * i + 1] = NUM_OF_INT(vy[i]); }
  VArr arr; arr.f0 = NPT; arr.f1 = NPT; arr.f2 = (void*)pts;
  Ref ref = {0};
  OI ox = (OI)nd_range(-RR, RR), oy = (OI)nd_range(-RR, RR), m = (OI)nd_range(-2, 2);
  VX(ref.f2) = NUM_OF_INT(ox); VY(ref.f2) = NUM_OF_INT(oy); ref.f4 = NUM_OF_INT(m); ref.f5 = REFL;
  ref.f3 = pick_rotation(ROT0);
  rep_build(&ref.f6, KIND, A, B, RR);
  _ZNK5gdstk9Reference20repeat_and_transformERNS_5ArrayINS_4Vec2EEE(&ref, &arr);
  static const int DXs[8] = {1, -1, 0, 0, 1, 1, -1, -1}, DYs[8] = {0, 0, 1, -1, 1, -1, 1, -1};
  OI r = REFL ? -1 : 1; NUM* q = (NUM*)arr.f2;
  CHECK(arr.f1 >= NPT && arr.f1 <= 4 * NPT, "point count");
  for (int d = 0; d < 8; d++) {
    OI want = -100000, have = -100000;
    for (int i = 0; i < NPT; i++) { OI qx = m * vx[i], qy = r * m * vy[i]; OI px = qx * C_ - qy * S_ + ox, py = qx * S_ + qy * C_ + oy;
      for (int k = 0; k < REP_MAXOFF; k++) if (k < rep_n) { OI v = DXs[d] * (px + (OI)rep_ex[k]) + DYs[d] * (py + (OI)rep_ey[k]); if (v > want) want = v; } }
    for (int j = 0; j < 4 * NPT; j++) if ((uint64_t)j < arr.f1) { OI v = DXs[d] * (OI)NUM_TO_I64(q[2 * j]) + DYs[d] * (OI)NUM_TO_I64(q[2 * j + 1]); if (v > have) have = v; }
    OBS("have", have);
    CHECK(have >= want, "the produced points reach as far as every repeated, transformed child point in this direction (nothing is left outside the hull)");
    CHECK(have <= want, "and no farther: every produced point is a transformed child point under some offset");
  }
  WITNESS_POINT();
  return 0;
}
