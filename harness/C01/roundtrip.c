/* C01 + C03 (writer direction): real Library::write_gds -> in-memory file -> (a) independent strict decoder of the GDSII grammar,
   (b) real read_gds -> same layout, (c) write_gds of the re-loaded library -> byte-identical file (further cycles change nothing).
   Shapes are fixed by the variant (ELEM), all field values symbolic; unit = precision so coordinates are integers. */
#include "harness.h"
double my_exp2(double); double my_log2(double); double my_ceil(double); double my_pow(double, double); int64_t my_lround(double); int64_t my_llround(double); uint64_t my_strlen1(uint8_t* s);
#include "prologue.h"
#ifndef VF_CAP
#define VF_CAP 200
#endif
#include "vfile.h"
#include "libm.h"
#include "gds_read.h"
#define WRITE_GDS _ZNK5gdstk7Library9write_gdsEPKcmP2tm
#define CR (1 << 20)
#ifndef REAL
/* every string of this harness is one character: strlen by contract keeps record lengths (the framing) concrete */
uint64_t my_strlen1(uint8_t* s) { __CPROVER_assert(s[0] != 0 && s[1] == 0, "1-character strings"); return 1; }
/* Polygon::fracture (Clipper) is only reached with a vertex limit (max_points > 4): not in this harness */
void _ZNK5gdstk7Polygon8fractureEmdRNS_5ArrayIPS0_EE(Poly* p, uint64_t max_points, double precision, ARGT__ZNK5gdstk7Polygon8fractureEmdRNS_5ArrayIPS0_EE_3* result) { CHECK(0, "fracture reached although no vertex limit was given"); }
#endif
/* ---- strict decoder (written from the format description) ---- */
static uint64_t dp;                                   /* cursor into file 0 */
static uint32_t d16(uint64_t p) { return (uint32_t)vf_files[0].data[p] << 8 | vf_files[0].data[p + 1]; }
static uint32_t d32(uint64_t p) { return d16(p) << 16 | d16(p + 2); }
static uint64_t d_rec(uint8_t type, uint8_t dtype, uint32_t paylen) {          /* next record must be exactly this; returns payload offset */
  CHECK(dp + 4 + paylen <= vf_files[0].len, "strict decoder: record inside the file");
  CHECK(d16(dp) == 4 + paylen && (d16(dp) & 1) == 0, "strict decoder: record length (even)");
  CHECK(vf_files[0].data[dp + 2] == type && vf_files[0].data[dp + 3] == dtype, "strict decoder: record and data type expected by the element grammar");
  uint64_t p = dp + 4; dp += 4 + paylen; return p;
}
int main(void) {
  uint16_t layer = (uint16_t)nd_range(0, 32767), dtype = (uint16_t)nd_range(0, 32767);
  int32_t x[3], y[3]; for (int i = 0; i < 3; i++) { x[i] = (int32_t)nd_range(-CR, CR); y[i] = (int32_t)nd_range(-CR, CR); }
  struct S_struct_tm tmv = {0}; tmv.f5 = 100; tmv.f4 = 1; tmv.f3 = 2; tmv.f2 = 3; tmv.f1 = 4; tmv.f0 = 5;
  Lib lib = {0}; uint8_t lname[2] = {'L', 0}; lib.f0 = lname; lib.f1 = 1e-9; lib.f2 = 1e-9;
  Cell cA = {0}, cD = {0}; uint8_t nA[2] = {'A', 0}, nD[2] = {'D', 0}; cA.f0 = nA; cD.f0 = nD; Cell* cells[2] = {&cA, &cD};
  lib.f3.f0 = 2; lib.f3.f1 = ((ELEM == 2 || ELEM == 3) ? 2 : 1); lib.f3.f2 = (void*)cells;
  Poly poly = {0}; Poly* pa[1] = {&poly}; double pts[6]; Label lab = {0}; Label* la[1] = {&lab}; uint8_t txt[2] = {0, 0}; Ref ref = {0}; Ref* ra[1] = {&ref};
  int refl = 0;
#if ELEM == 0          /* one polygon */
  ASSUME(!(x[0] == x[2] && y[0] == y[2]));
  for (int i = 0; i < 3; i++) { pts[2 * i] = (double)x[i]; pts[2 * i + 1] = (double)y[i]; }
  poly.f0 = TAG(layer, dtype); poly.f1.f0 = 3; poly.f1.f1 = 3; poly.f1.f2 = (void*)pts;
  cA.f1.f0 = 1; cA.f1.f1 = 1; cA.f1.f2 = (void*)pa;
#elif ELEM == 1        /* one label, reflection symbolic, magnification 2 when WITH_MAG */
  txt[0] = (uint8_t)nd_range('a', 'z'); refl = REFL; uint32_t anchor = (uint32_t)nd_range(0, 10); ASSUME((anchor & 3) != 3);
  lab.f0 = TAG(layer, dtype); lab.f1 = txt; VXD(lab.f2) = (double)x[0]; VYD(lab.f2) = (double)y[0]; lab.f3 = anchor; lab.f4 = 0.0; lab.f5 = WITH_MAG ? 2.0 : 1.0; lab.f6 = (uint8_t)refl;
  cA.f5.f0 = 1; cA.f5.f1 = 1; cA.f5.f2 = (void*)la;
#elif ELEM == 2        /* one reference A -> D */
  refl = REFL;
  ref.f0 = 0; *(Cell**)&ref.f1 = &cD; VXD(ref.f2) = (double)x[0]; VYD(ref.f2) = (double)y[0]; ref.f3 = 0.0; ref.f4 = WITH_MAG ? 0.5 : 1.0; ref.f5 = (uint8_t)refl;
  cA.f2.f0 = 1; cA.f2.f1 = 1; cA.f2.f2 = (void*)ra;
#elif ELEM == 3        /* SEQUENCES: cell A = polygon, label with magnification 2 and reflection, plain label, reference with magnification 0.5 and reflection, plain
                          reference; cell D = one polygon. What one element carries must not leak into the next, in the writer or in the reader. */
  uint16_t layer2 = (uint16_t)nd_range(0, 32767), dtype2 = (uint16_t)nd_range(0, 32767); int32_t x2[3], y2[3]; for (int i = 0; i < 3; i++) { x2[i] = (int32_t)nd_range(-CR, CR); y2[i] = (int32_t)nd_range(-CR, CR); }
  ASSUME(!(x[0] == x[2] && y[0] == y[2]) && !(x2[0] == x2[2] && y2[0] == y2[2]));
  for (int i = 0; i < 3; i++) { pts[2 * i] = (double)x[i]; pts[2 * i + 1] = (double)y[i]; }
  poly.f0 = TAG(layer, dtype); poly.f1.f0 = 3; poly.f1.f1 = 3; poly.f1.f2 = (void*)pts; cA.f1.f0 = 1; cA.f1.f1 = 1; cA.f1.f2 = (void*)pa;
  Label lab1 = {0}; uint8_t txt1[2] = {'u', 0}; Label* la2[2] = {&lab, &lab1}; txt[0] = 't';
  lab.f0 = TAG(layer, dtype); lab.f1 = txt; VXD(lab.f2) = (double)x[0]; VYD(lab.f2) = (double)y[0]; lab.f3 = 5; lab.f5 = 2.0; lab.f6 = 1;
  lab1.f0 = TAG(layer2, dtype2); lab1.f1 = txt1; VXD(lab1.f2) = (double)x[1]; VYD(lab1.f2) = (double)y[1]; lab1.f3 = 0; lab1.f5 = 1.0; lab1.f6 = 0;
  cA.f5.f0 = 2; cA.f5.f1 = 2; cA.f5.f2 = (void*)la2;
  Ref ref1 = {0}; Ref* ra2[2] = {&ref, &ref1};
  ref.f0 = 0; *(Cell**)&ref.f1 = &cD; VXD(ref.f2) = (double)x[2]; VYD(ref.f2) = (double)y[2]; ref.f4 = 0.5; ref.f5 = 1;
  ref1.f0 = 0; *(Cell**)&ref1.f1 = &cD; VXD(ref1.f2) = (double)x2[0]; VYD(ref1.f2) = (double)y2[0]; ref1.f4 = 1.0; ref1.f5 = 0;
  cA.f2.f0 = 2; cA.f2.f1 = 2; cA.f2.f2 = (void*)ra2;
  Poly polyD = {0}; Poly* pd[1] = {&polyD}; double ptsD[6]; for (int i = 0; i < 3; i++) { ptsD[2 * i] = (double)x2[i]; ptsD[2 * i + 1] = (double)y2[i]; }
  polyD.f0 = TAG(layer2, dtype2); polyD.f1.f0 = 3; polyD.f1.f1 = 3; polyD.f1.f2 = (void*)ptsD; cD.f1.f0 = 1; cD.f1.f1 = 1; cD.f1.f2 = (void*)pd;
  Label labD = {0}; uint8_t txtD[2] = {'w', 0}; Label* lD[1] = {&labD}; labD.f0 = TAG(layer, dtype2); labD.f1 = txtD; VXD(labD.f2) = (double)x2[1]; VYD(labD.f2) = (double)y2[1]; labD.f3 = 0; labD.f5 = 1.0; cD.f5.f0 = 1; cD.f5.f1 = 1; cD.f5.f2 = (void*)lD;      /* a label after the references of the cell before */
#endif
  uint8_t fname[2] = {'f', 0}, gname[2] = {'g', 0};
  uint32_t werr = WRITE_GDS(&lib, fname, 0, &tmv);
  CHECK(werr == 0 && vf_open_count == 0, "write succeeds, handle released");
  /* ---- (a) strict decoding of what was written ---- */
#if PHASE == 1
  { uint64_t p; dp = 0;
    p = d_rec(0x00, 2, 2); p = d_rec(0x01, 2, 24);
    CHECK(d16(p) == 2000 && d16(p + 2) == 2 && d16(p + 4) == 2 && d16(p + 6) == 3 && d16(p + 8) == 4 && d16(p + 10) == 5, "BGNLIB carries the given time stamp");
    p = d_rec(0x02, 6, 2); CHECK(vf_files[0].data[p] == 'L' && vf_files[0].data[p + 1] == 0, "LIBNAME padded to even length");
    p = d_rec(0x03, 5, 16); CHECK(d32(p) == 0x41100000u && d32(p + 4) == 0 && d32(p + 8) == 0x3944B82Fu && d32(p + 12) == 0xA09B5A54u, "UNITS: 1 user unit per database unit, 1e-9 m (normalised 8-byte reals)");
    p = d_rec(0x05, 2, 24); p = d_rec(0x06, 6, 2); CHECK(vf_files[0].data[p] == 'A' && vf_files[0].data[p + 1] == 0, "STRNAME");
#if ELEM == 0
    d_rec(0x08, 0, 0); p = d_rec(0x0d, 2, 2); CHECK(d16(p) == layer, "LAYER"); p = d_rec(0x0e, 2, 2); CHECK(d16(p) == dtype, "DATATYPE");
    p = d_rec(0x10, 3, 32); for (int i = 0; i < 4; i++) CHECK(d32(p + 8 * i) == (uint32_t)x[i % 3] && d32(p + 8 * i + 4) == (uint32_t)y[i % 3], "XY: the vertices, closed by repeating the first");
    d_rec(0x11, 0, 0);
#elif ELEM == 1
    d_rec(0x0c, 0, 0); p = d_rec(0x0d, 2, 2); CHECK(d16(p) == layer, "LAYER"); p = d_rec(0x16, 2, 2); CHECK(d16(p) == dtype, "TEXTTYPE");
    p = d_rec(0x17, 1, 2); CHECK(d16(p) == lab.f3, "PRESENTATION = anchor");
    if (refl || WITH_MAG) { p = d_rec(0x1a, 1, 2); CHECK(d16(p) == (refl ? 0x8000u : 0u), "STRANS: reflection bit only");
#if WITH_MAG
      p = d_rec(0x1b, 5, 8); CHECK(d32(p) == 0x41200000u && d32(p + 4) == 0, "MAG = 2 as a normalised real");
#endif
    }
    p = d_rec(0x10, 3, 8); CHECK(d32(p) == (uint32_t)x[0] && d32(p + 4) == (uint32_t)y[0], "XY");
    p = d_rec(0x19, 6, 2); CHECK(vf_files[0].data[p] == txt[0] && vf_files[0].data[p + 1] == 0, "STRING padded");
    d_rec(0x11, 0, 0);
#elif ELEM == 2
    d_rec(0x0a, 0, 0); p = d_rec(0x12, 6, 2); CHECK(vf_files[0].data[p] == 'D' && vf_files[0].data[p + 1] == 0, "SNAME");
    if (refl || WITH_MAG) { p = d_rec(0x1a, 1, 2); CHECK(d16(p) == (refl ? 0x8000u : 0u), "STRANS");
#if WITH_MAG
      p = d_rec(0x1b, 5, 8); CHECK(d32(p) == 0x40800000u && d32(p + 4) == 0, "MAG = 0.5 as a normalised real");
#endif
    }
    p = d_rec(0x10, 3, 8); CHECK(d32(p) == (uint32_t)x[0] && d32(p + 4) == (uint32_t)y[0], "XY");
    d_rec(0x11, 0, 0); d_rec(0x07, 0, 0);
    d_rec(0x05, 2, 24); p = d_rec(0x06, 6, 2); CHECK(vf_files[0].data[p] == 'D', "second structure");
#endif
    d_rec(0x07, 0, 0); d_rec(0x04, 0, 0);
    CHECK(dp == vf_files[0].len, "nothing after ENDLIB"); }
#endif
  /* ---- (b) load it back ---- */
#if PHASE >= 2
  uint32_t rerr = 0; Lib out = {0};
  READ_GDS(&out, fname, 0.0, 0.0, (void*)0, &rerr);
  CHECK(rerr == 0 && vf_open_count == 0, "loads without error");
  CHECK(out.f1 == 1e-9 && out.f2 == 1e-9 && out.f0[0] == 'L' && out.f3.f1 == lib.f3.f1, "unit, precision, name, cell count");
  Cell* c = lib_cell(&out, 0); CHECK(c->f0[0] == 'A' && c->f0[1] == 0, "cell name");
#if ELEM == 0
  { CHECK(c->f1.f1 == 1, "one polygon"); Poly* p = ((Poly**)c->f1.f2)[0]; double* q = (double*)p->f1.f2;
    CHECK(p->f0 == poly.f0 && p->f1.f1 == 3, "tag, vertex count"); for (int i = 0; i < 6; i++) CHECK(q[i] == pts[i], "vertices"); }
#elif ELEM == 1
  { CHECK(c->f5.f1 == 1, "one label"); Label* l = ((Label**)c->f5.f2)[0];
    CHECK(l->f0 == lab.f0 && l->f1[0] == txt[0] && l->f1[1] == 0 && VXD(l->f2) == VXD(lab.f2) && VYD(l->f2) == VYD(lab.f2) && l->f3 == lab.f3 && l->f4 == 0.0 && l->f5 == lab.f5 && (l->f6 & 1) == refl, "label fields"); }
#elif ELEM == 2
  { CHECK(c->f2.f1 == 1, "one reference"); Ref* r = ((Ref**)c->f2.f2)[0];
    CHECK(r->f0 == 0 && *(Cell**)&r->f1 == lib_cell(&out, 1) && lib_cell(&out, 1)->f0[0] == 'D', "target resolved");
    CHECK(VXD(r->f2) == VXD(ref.f2) && VYD(r->f2) == VYD(ref.f2) && r->f3 == 0.0 && r->f4 == ref.f4 && (r->f5 & 1) == refl && r->f6.f0 == 0, "placement"); }
#elif ELEM == 3
  { Cell* d = lib_cell(&out, 1); CHECK(d->f0[0] == 'D' && c->f1.f1 == 1 && c->f5.f1 == 2 && c->f2.f1 == 2 && d->f1.f1 == 1 && d->f5.f1 == 1 && d->f2.f1 == 0, "element counts per cell");
    { Label* ld = ((Label**)d->f5.f2)[0]; CHECK(ld->f0 == labD.f0 && ld->f1[0] == 'w' && VXD(ld->f2) == VXD(labD.f2) && VYD(ld->f2) == VYD(labD.f2) && ld->f5 == 1.0 && (ld->f6 & 1) == 0, "the label of D (it follows A's references in the file)"); }
    Poly* p = ((Poly**)c->f1.f2)[0]; double* q = (double*)p->f1.f2; CHECK(p->f0 == poly.f0 && p->f1.f1 == 3, "polygon of A"); for (int i = 0; i < 6; i++) CHECK(q[i] == pts[i], "vertices of A's polygon");
    Poly* p2 = ((Poly**)d->f1.f2)[0]; double* q2 = (double*)p2->f1.f2; CHECK(p2->f0 == polyD.f0 && p2->f1.f1 == 3, "polygon of D"); for (int i = 0; i < 6; i++) CHECK(q2[i] == ptsD[i], "vertices of D's polygon");
    Label* l0 = ((Label**)c->f5.f2)[0]; Label* l1 = ((Label**)c->f5.f2)[1];
    CHECK(l0->f0 == lab.f0 && l0->f1[0] == 't' && VXD(l0->f2) == VXD(lab.f2) && VYD(l0->f2) == VYD(lab.f2) && l0->f3 == 5 && l0->f5 == 2.0 && (l0->f6 & 1) == 1 && l0->f4 == 0.0, "first label");
    CHECK(l1->f0 == lab1.f0 && l1->f1[0] == 'u' && VXD(l1->f2) == VXD(lab1.f2) && VYD(l1->f2) == VYD(lab1.f2) && l1->f3 == 0 && l1->f5 == 1.0 && (l1->f6 & 1) == 0 && l1->f4 == 0.0, "second label: its own (default) magnification, reflection and anchor");
    Ref* r0 = ((Ref**)c->f2.f2)[0]; Ref* r1 = ((Ref**)c->f2.f2)[1];
    CHECK(r0->f0 == 0 && *(Cell**)&r0->f1 == d && VXD(r0->f2) == VXD(ref.f2) && VYD(r0->f2) == VYD(ref.f2) && r0->f4 == 0.5 && (r0->f5 & 1) == 1 && r0->f3 == 0.0, "first reference");
    CHECK(r1->f0 == 0 && *(Cell**)&r1->f1 == d && VXD(r1->f2) == VXD(ref1.f2) && VYD(r1->f2) == VYD(ref1.f2) && r1->f4 == 1.0 && (r1->f5 & 1) == 0 && r1->f3 == 0.0 && r1->f6.f0 == 0, "second reference: its own (default) magnification and reflection"); }
#endif
#endif
#if PHASE == 3
  /* ---- (c) second cycle: byte-identical file ---- */
  uint32_t werr2 = WRITE_GDS(&out, gname, 0, &tmv);
  CHECK(werr2 == 0, "second write succeeds");
  CHECK(vf_files[1].len == vf_files[0].len, "same length");
  for (uint64_t i = 0; i < 160; i++) if (i < vf_files[0].len) CHECK(vf_files[1].data[i] == vf_files[0].data[i], "a further save/load cycle changes nothing");
#endif
  WITNESS_POINT();
  return 0;
}
