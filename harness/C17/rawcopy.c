/* C17: raw cells: read_rawcells captures, for a cell of a (specification-encoded) file, exactly the byte range from its BGNSTR
   record to its ENDSTR record; RawCell::to_gds re-emits those bytes verbatim into another file - so the copied cell loads from
   the new file exactly as it loads from the original - and releases the source file once the last raw cell has been written. */
#include "harness.h"
uint64_t my_strlen1(uint8_t* s);
#include "prologue.h"
#define VF_CAP 260
#include "vfile.h"
#include "gds_spec.h"
#define CR (1 << 16)
#ifndef REAL
static uint64_t* Hh;
uint64_t _ZN5gdstk4hashEPKc(uint8_t* k) { return Hh[k[0]] & 0xff; }      /* hash of a name: an arbitrary function */
uint64_t my_strlen1(uint8_t* s) { __CPROVER_assert(s[0] != 0 && s[1] == 0, "1-character names"); return 1; }
#endif
typedef ARGT__ZN5gdstk13read_rawcellsEPKcPNS_9ErrorCodeE_0 RMap;      /* returned through a hidden result pointer */
typedef struct S_struct_gdstk__RawCell RawCell;
typedef struct { uint8_t* key; RawCell* value; } RItem;
int main(void) {
#ifdef __CPROVER__
  uint64_t Hloc[256]; Hh = Hloc;
#endif
  uint16_t l1 = (uint16_t)nd_range(0, 32767), t1 = (uint16_t)nd_range(0, 32767);
  int32_t x[3], y[3]; for (int i = 0; i < 3; i++) { x[i] = (int32_t)nd_range(-CR, CR); y[i] = (int32_t)nd_range(-CR, CR); }
  g_file_begin(R8_1EM3, R8_1EM9);
  uint64_t start = vf_files[0].len;
  g_rec(G_BGNSTR, GT_I16, 24); for (int i = 0; i < 12; i++) g_u16(nd_u16());
  g_str1(G_STRNAME, 'A');
  g_none(G_BOUNDARY); g_i16(G_LAYER, l1); g_i16(G_DATATYPE, t1);
  g_rec(G_XY, GT_I32, 32); for (int i = 0; i < 3; i++) { g_u32((uint32_t)x[i]); g_u32((uint32_t)y[i]); } g_u32((uint32_t)x[0]); g_u32((uint32_t)y[0]); g_none(G_ENDEL);
#if WITH_SREF
  g_none(G_SREF); g_str1(G_SNAME, 'B'); g_rec(G_XY, GT_I32, 8); g_u32((uint32_t)x[1]); g_u32((uint32_t)y[1]); g_none(G_ENDEL);
#endif
  g_cell_end();
  uint64_t end = vf_files[0].len;
#if WITH_SREF
  g_cell_begin('B'); g_cell_end();
#endif
  g_file_end();
  uint8_t fname[2] = {'f', 0}, gname[2] = {'g', 0}, wmode[3] = {'w', 'b', 0}; uint32_t err = 0; RMap m = {0};
  _ZN5gdstk13read_rawcellsEPKcPNS_9ErrorCodeE(&m, fname, &err);
  CHECK(err == 0, "read_rawcells succeeds");
  CHECK(m.f1 == (WITH_SREF ? 2 : 1), "one raw cell per cell of the file");
  RawCell* rc = 0; RItem* it = (RItem*)m.f2;
  for (uint64_t i = 0; i < 8; i++) if (i < m.f0 && it[i].key && it[i].key[0] == 'A') rc = it[i].value;
  CHECK(rc != 0, "found under its name");
  if (rc) {
    CHECK(rc->f0[0] == 'A' && rc->f0[1] == 0, "name");
    CHECK(rc->f3 == end - start, "captured size = bytes from BGNSTR through ENDSTR");
    CHECK(rc->f4.f1 == (WITH_SREF ? 1 : 0), "dependencies = the distinct cells it references");
#if WITH_SREF
    { RawCell* dep = ((RawCell**)rc->f4.f2)[0]; CHECK(dep && dep->f0[0] == 'B', "dependency resolved to the raw cell of that name"); }
#endif
    VF* out = VFN(fopen)(gname, wmode);
    uint32_t e2 = _ZN5gdstk7RawCell6to_gdsEP8_IO_FILE(rc, out);
    CHECK(e2 == 0, "to_gds succeeds");
    CHECK(vf_files[1].len == end - start, "as many bytes written as captured");
#ifdef NATIVE
    for (uint64_t i = 0; i < VF_CAP; i++) if (i < end - start && i < vf_files[1].len) CHECK(vf_files[1].data[i] == vf_files[0].data[start + i], "the cell's records are re-emitted verbatim");
#else
    { uint64_t i = nd_u64(); if (i < end - start && i < vf_files[1].len) CHECK(vf_files[1].data[i] == vf_files[0].data[start + i], "the cell's records are re-emitted verbatim"); }      /* every position: symbolic index */
#endif
    VFN(fclose)(out);
    CHECK(vf_open_count == (WITH_SREF ? 1 : 0) && !vf_bad_use, "the source file is released with the last raw cell that still needs it, the output handle by the caller");
  }
  WITNESS_POINT();
  return 0;
}
