/* C17: partial and alternative GDSII readers agree with the full reader on the same (specification-encoded) file, whose field
   values are symbolic: gds_units, gds_info, gds_timestamp (read) vs read_gds; read_gds with a tag filter == read all and drop;
   gds_timestamp (write) changes exactly the 24 time bytes after BGNLIB and after each BGNSTR. */
#include "harness.h"
double my_exp2(double);
#include "prologue.h"
#define VF_CAP 260
#include "vfile.h"
#include "libm.h"
#include "gds_spec.h"
#include "gds_read.h"
#define CR (1 << 16)
#ifndef REAL
static uint64_t HT[4]; static uint64_t HTv[4]; static int hn;
/* hash<Tag>: an arbitrary function (the same tag always hashes alike) */
uint64_t _ZN5gdstk4hashImEEmT_(uint64_t t) { for (int i = 0; i < 4; i++) if (i < hn && HT[i] == t) return HTv[i]; __CPROVER_assert(hn < 4, "hash stub capacity"); HT[hn] = t; HTv[hn] = (uint64_t)nd_range(0, 255); return HTv[hn++]; }
#endif
typedef struct S_struct_gdstk__Set TagSet;      /* Set<Tag> {capacity, count, items {Tag value; bool valid}} */
int main(void) {
  uint16_t l1 = (uint16_t)nd_range(0, 32767), t1 = (uint16_t)nd_range(0, 32767), l2 = (uint16_t)nd_range(0, 32767), t2 = (uint16_t)nd_range(0, 32767);
  int32_t x[4], y[4]; for (int i = 0; i < 4; i++) { x[i] = (int32_t)nd_range(-CR, CR); y[i] = (int32_t)nd_range(-CR, CR); }
  ASSUME(!(x[0] == x[2] && y[0] == y[2]));
  uint16_t tm16[12]; for (int i = 0; i < 12; i++) tm16[i] = nd_u16();
  vf_files[0].len = 0; g_i16(G_HEADER, 600);
  uint64_t off_lib = vf_files[0].len + 4; g_rec(G_BGNLIB, GT_I16, 24); for (int i = 0; i < 12; i++) g_u16(tm16[i]);
  g_str1(G_LIBNAME, 'L'); g_rec(G_UNITS, GT_R8, 16); g_u64(R8_1EM3); g_u64(R8_1EM9);
  uint64_t off_str = vf_files[0].len + 4; g_rec(G_BGNSTR, GT_I16, 24); for (int i = 0; i < 12; i++) g_u16(nd_u16());
  g_str1(G_STRNAME, 'A');
#if OP != 4      /* the time-stamp rewrite is checked on the element-free skeleton of the file (it never looks at elements) */
  g_none(G_BOUNDARY); g_i16(G_LAYER, l1); g_i16(G_DATATYPE, t1);
  g_rec(G_XY, GT_I32, 32); for (int i = 0; i < 3; i++) { g_u32((uint32_t)x[i]); g_u32((uint32_t)y[i]); } g_u32((uint32_t)x[0]); g_u32((uint32_t)y[0]); g_none(G_ENDEL);
  g_none(G_TEXT); g_i16(G_LAYER, l2); g_i16(G_TEXTTYPE, t2); g_rec(G_XY, GT_I32, 8); g_u32((uint32_t)x[3]); g_u32((uint32_t)y[3]); g_str1(G_STRING, 't'); g_none(G_ENDEL);
#endif
  g_cell_end(); g_file_end();
  uint8_t fname[2] = {'f', 0};
#if OP == 0 || OP == 1 || OP == 2 || OP == 3
  uint32_t err = 0; Lib lib = {0};
#if OP == 3
  /* filter set with one symbolic tag, built as the real table would hold it (capacity 8, slot = hash mod 8, arbitrary hash) */
  uint64_t ftag = nd_bool() ? TAG(l1, t1) : (nd_bool() ? TAG(l2, t2) : TAG(nd_range(0, 32767), nd_range(0, 32767)));
  ARGT__ZN5gdstk8read_gdsEPKcddPKNS_3SetImEEPNS_9ErrorCodeE_4 fset = {0};
  { typedef struct { uint64_t value; uint8_t valid; } SI; SI* it = calloc(8, sizeof(SI));
#ifdef REAL
    uint64_t hh = 0xcbf29ce484222325ULL; for (int i = 0; i < 8; i++) { hh ^= (ftag >> (8 * i)) & 0xff; hh *= 0x100000001b3ULL; }
#else
    uint64_t hh = _ZN5gdstk4hashImEEmT_(ftag);
#endif
    it[hh % 8].value = ftag; it[hh % 8].valid = 1; fset.f0 = 8; fset.f1 = 1; fset.f2 = (void*)it; }
  READ_GDS(&lib, fname, 0.0, 0.0, &fset, &err);
#else
  READ_GDS(&lib, fname, 0.0, 0.0, (void*)0, &err);
#endif
  CHECK(err == 0 && vf_open_count == 0 && lib.f3.f1 == 1, "full load succeeds");
  Cell* c = lib_cell(&lib, 0);
#endif
#if OP == 0
  { double u = 0, p = 0; uint32_t rc = _ZN5gdstk9gds_unitsEPKcRdS2_(fname, &u, &p);
    CHECK(rc == 0 && vf_open_count == 0, "gds_units succeeds"); CHECK(bc_f_i64(u) == bc_f_i64(lib.f1) && bc_f_i64(p) == bc_f_i64(lib.f2), "unit and precision equal those of the full load"); }
#elif OP == 1
  { ARGT__ZN5gdstk8gds_infoEPKcRNS_11LibraryInfoE_1 info = {0}; uint32_t rc = _ZN5gdstk8gds_infoEPKcRNS_11LibraryInfoE(fname, &info);
    CHECK(rc == 0 && vf_open_count == 0, "gds_info succeeds");
    CHECK(info.f0.f1 == lib.f3.f1 && ((uint8_t**)info.f0.f2)[0][0] == c->f0[0] && ((uint8_t**)info.f0.f2)[0][1] == 0, "cell names");
    CHECK(info.f3 == c->f1.f1 && info.f4 == c->f3.f1 && info.f5 == c->f2.f1 && info.f6 == c->f5.f1, "numbers of polygons, paths, references, labels");
    CHECK(bc_f_i64(info.f7) == bc_f_i64(lib.f1) && bc_f_i64(info.f8) == bc_f_i64(lib.f2), "unit and precision");
    { uint64_t ptag = ((Poly**)c->f1.f2)[0]->f0, ltag = ((Label**)c->f5.f2)[0]->f0; typedef struct { uint64_t value; uint8_t valid; } SI;
      CHECK(info.f1.f1 == 1 && info.f2.f1 == 1, "one shape tag, one label tag");
      int fs = 0, fl = 0; for (uint64_t i = 0; i < 8; i++) { if (i < info.f1.f0 && ((SI*)info.f1.f2)[i].valid) { CHECK(((SI*)info.f1.f2)[i].value == ptag, "shape tag set == tags of the loaded shapes"); fs++; }
        if (i < info.f2.f0 && ((SI*)info.f2.f2)[i].valid) { CHECK(((SI*)info.f2.f2)[i].value == ltag, "label tag set == tags of the loaded labels"); fl++; } }
      CHECK(fs == 1 && fl == 1, "exactly those"); } }
#elif OP == 2
  { struct S_struct_tm t = {0}; uint32_t e2 = 0; _ZN5gdstk13gds_timestampEPKcPK2tmPNS_9ErrorCodeE(&t, fname, (struct S_struct_tm*)0, &e2);
    CHECK(e2 == 0 && vf_open_count == 0, "gds_timestamp (read) succeeds");
    CHECK(t.f5 == (uint32_t)tm16[0] - 1900 && t.f4 == (uint32_t)tm16[1] - 1 && t.f3 == tm16[2] && t.f2 == tm16[3] && t.f1 == tm16[4] && t.f0 == tm16[5], "the library's modification time stamp"); }
#elif OP == 3
  { int keep = ftag == TAG(l1, t1);
    CHECK(c->f1.f1 == (uint64_t)keep, "the polygon is loaded iff its tag is in the filter");
    if (keep) { Poly* p = ((Poly**)c->f1.f2)[0]; double* q = (double*)p->f1.f2; CHECK(p->f0 == TAG(l1, t1) && p->f1.f1 == 3 && q[0] == 1e-3 * (double)x[0] && q[5] == 1e-3 * (double)y[2], "and is the polygon a full load gives"); }
    CHECK(c->f5.f1 == 1 && ((Label**)c->f5.f2)[0]->f0 == TAG(l2, t2), "labels are not filtered");
    { Label* l = ((Label**)c->f5.f2)[0]; CHECK(l->f1 && l->f1[0] == 't' && VXD(l->f2) == 1e-3 * (double)x[3] && VYD(l->f2) == 1e-3 * (double)y[3], "and the label that follows the (kept or dropped) shape is the label a full load gives: text and position"); } }
#elif OP == 4
  { uint8_t before[110]; uint64_t n = vf_files[0].len; CHECK(n <= 110, "skeleton size"); for (uint64_t i = 0; i < 110; i++) before[i] = vf_files[0].data[i];
    struct S_struct_tm nt = {0}; nt.f5 = (uint32_t)nd_range(0, 200); nt.f4 = (uint32_t)nd_range(0, 11); nt.f3 = (uint32_t)nd_range(1, 31); nt.f2 = (uint32_t)nd_range(0, 23); nt.f1 = (uint32_t)nd_range(0, 59); nt.f0 = (uint32_t)nd_range(0, 59);
    struct S_struct_tm t = {0}; uint32_t e2 = 0; _ZN5gdstk13gds_timestampEPKcPK2tmPNS_9ErrorCodeE(&t, fname, &nt, &e2);
    CHECK(e2 == 0 && vf_open_count == 0 && vf_files[0].len == n, "gds_timestamp (write) succeeds, file length unchanged");
    CHECK(t.f5 == (uint32_t)tm16[0] - 1900 && t.f0 == tm16[5], "returns the previous time stamp");
    uint16_t w[6] = {(uint16_t)(nt.f5 + 1900), (uint16_t)(nt.f4 + 1), (uint16_t)nt.f3, (uint16_t)nt.f2, (uint16_t)nt.f1, (uint16_t)nt.f0};
    for (uint64_t i = 0; i < 110; i++) if (i < n) { int in_lib = i >= off_lib && i < off_lib + 24, in_str = i >= off_str && i < off_str + 24;
      if (in_lib || in_str) { uint64_t k = (i - (in_lib ? off_lib : off_str)) % 12; CHECK(vf_files[0].data[i] == (k % 2 ? (uint8_t)w[k / 2] : (uint8_t)(w[k / 2] >> 8)), "both time stamps of the record carry the new time"); }
      else CHECK(vf_files[0].data[i] == before[i], "every other byte of the file is untouched"); } }
#endif
  WITNESS_POINT();
  return 0;
}
