/* C04 (reader direction): the real read_oas runs on a record stream produced by an encoder written from the OASIS record
   definitions (info-byte bits, modal variables, XYRELATIVE, point lists, placement codes). Integers / deltas / reals / strings are
   typed TOKENS (engine/env/oastok.h): the reader must ask for exactly the kind of token the specification puts at each position,
   so the grammar itself is checked; the byte-level codecs are C19. Record ids and info bytes are K_BYTE tokens. */
#include "harness.h"
#include "prologue.h"
#ifdef REAL
#define VF_CAP 400     /* the byte rendering of the token stream */
#else
#define VF_CAP 32
#endif
#include "vfile.h"
#define ZSTUB_INFLATE
#include "zstub.h"
#define OASTOK_STRINGS_AND_REALS
#include "oastok.h"
#include "gds_read.h"
#include "oas_ref.h"
#define PV_U64(v) (*(uint64_t*)&(v)->f1)
#define PV_BYTES(v) (*(uint8_t**)((uint8_t*)&(v)->f1 + 8))
#define READ_OAS _ZN5gdstk8read_oasEPKcddPNS_9ErrorCodeE
#ifndef LIM
#define LIM (1 << 20)
#endif
static void B(uint8_t b) { tok_put(K_BYTE, b, 0); }
static void U(uint64_t v) { tok_put(K_UINT, v, 0); }
static void I(int64_t v) { tok_put(K_INT, (uint64_t)v, 0); }
static void STR1(uint8_t c) { U(1); B(c); }
static void file_begin(void) { static const uint8_t M[13] = {'%', 'S', 'E', 'M', 'I', '-', 'O', 'A', 'S', 'I', 'S', '\r', '\n'};
  for (int i = 0; i < 13; i++) vf_files[0].data[i] = M[i]; vf_files[0].data[13] = 1; vf_files[0].len = 14;     /* magic + START record id: read as raw bytes */
  U(3); B('1'); B('.'); B('0'); tok_put(K_REAL, 0x3ff0000000000000ULL /* 1.0 grid steps per micron */, 0); U(0); for (int i = 0; i < 12; i++) U(0); }
static void cell_by_name(uint8_t c) { B(14); STR1(c); }
int main(void) {
  uint32_t layer = nd_u32(), dtype = nd_u32(); uint32_t w = (uint32_t)nd_range(0, LIM), h = (uint32_t)nd_range(0, LIM); int32_t x = (int32_t)nd_range(-LIM, LIM), y = (int32_t)nd_range(-LIM, LIM);
  int32_t x2 = (int32_t)nd_range(-LIM, LIM), y2 = (int32_t)nd_range(-LIM, LIM);
#if ELEM == 2
  ASSUME(x > -1024 && x < 1024 && y > -1024 && y < 1024 && x2 > -1024 && x2 < 1024 && y2 > -1024 && y2 < 1024 && w < 1024 && h < 1024);
#endif
  file_begin(); cell_by_name('A');
#if ELEM == 0        /* RECTANGLE, every field explicit: info byte SWHXYRDL = 0111 1011 */
  B(20); B(0x7B); U(layer); U(dtype); U(w); U(h); I(x); I(y);
#elif ELEM == 1      /* RECTANGLE, square (S = 1, no height), then a second one re-using layer, datatype and size from the modal variables in XYRELATIVE mode */
  B(20); B(0xDB); U(layer); U(dtype); U(w); I(x); I(y);
  B(16); B(20); B(0x18); I(x2); I(y2);
#elif ELEM == 2      /* POLYGON, general point list (type 4) with two g-deltas: vertices P, P + d1, P + d1 + d2 */
  B(21); B(0x3B); U(layer); U(dtype); B(4); U(2); tok_put(K_GD, (uint64_t)(int64_t)x2, (uint64_t)(int64_t)y2); tok_put(K_GD, (uint64_t)(int64_t)(int32_t)w, (uint64_t)(int64_t)(int32_t)h); I(x); I(y);
#elif ELEM == 3      /* PLACEMENT (record 17) by name, rotation code RC (0..3) in bits AA, reflection bit symbolic */
  int refl = REFL;           /* info-byte bits are enumerated by the variant: they decide which fields follow */
  B(17); B((uint8_t)(0x80 | 0x30 | (RC << 1) | refl)); STR1('D'); I(x); I(y);
  cell_by_name('D');
#elif ELEM == 4      /* TEXT with inline string, text layer / type, position */
  uint8_t ch = 't';
  B(19); B(0x5B); STR1(ch); U(layer); U(dtype); I(x); I(y);
#elif ELEM == 5      /* TRAPEZOID: record REC = 23 (delta-a and delta-b), 24 (delta-a only), 25 (delta-b only); O bit (0x80) = VERT: parallel sides vertical */
  int32_t da = REC == 25 ? 0 : (int32_t)nd_range(-LIM, LIM), db = REC == 24 ? 0 : (int32_t)nd_range(-LIM, LIM);
  B(REC); B((uint8_t)((VERT << 7) | 0x7B)); U(layer); U(dtype); U(w); U(h); if (REC != 25) I(da); if (REC != 24) I(db); I(x); I(y);
#elif ELEM == 6      /* CTRAPEZOID type CT (0..25): info byte T W H X Y R D L; W / H present exactly when the type uses them. The type is an unsigned-integer
                        in the specification and read as one raw byte by gdstk: the same byte for every defined type, so the token is a byte */
  int use_h = CT < 16 || CT == 20 || CT == 21 || CT == 24, use_w = CT != 20 && CT != 21;
  B(26); B((uint8_t)(0x9B | (use_w ? 0x40 : 0) | (use_h ? 0x20 : 0))); U(layer); U(dtype); B(CT); if (use_w) U(w); if (use_h) U(h); I(x); I(y);
#elif ELEM == 7      /* RECTANGLE with two PROPERTY records: the first names the property inline ("p") and carries an explicit value list
                        [unsigned integer v, reference to PROPSTRING 0 (type 13 + STRREF)]; the second re-uses name and value list from the modal
                        variables - as PROPERTY with V = 1, C = 0 (PREC = 28) or as LAST_PROPERTY (PREC = 29). PROPSTRING 0 ("q") is defined
                        afterwards (implicit numbering), so the reference is resolved at END. The real values mix: the genuine integer stays one. */
  uint64_t pv = nd_u64();
  B(20); B(0x7B); U(layer); U(dtype); U(w); U(h); I(x); I(y);
  B(28); B(0x24); STR1('p'); B(8); U(pv); B(13 + STRREF); U(0);
  B(PREC); if (PREC == 28) B(0x08);
  B(9); STR1('q');
#elif ELEM == 8      /* PATH: info byte E W P X Y R D L = 0xFB; half-width; extension scheme EXT (SS EE bit pairs: 1 flush, 2 half-width, 3 explicit signed value);
                        point list of type PLT (2: Manhattan 2-deltas, 4: general g-deltas) with two deltas; x; y */
  int32_t e0 = (int32_t)nd_range(-LIM, LIM), e1 = (int32_t)nd_range(-LIM, LIM), d1x = (int32_t)nd_range(-LIM, LIM), d1y = (int32_t)nd_range(-LIM, LIM), d2x = (int32_t)nd_range(-LIM, LIM), d2y = (int32_t)nd_range(-LIM, LIM);
  if (PLT == 2) { if (nd_bool()) d1x = 0; else d1y = 0; if (nd_bool()) d2x = 0; else d2y = 0; }
  ASSUME((d1x != 0 || d1y != 0) && (d2x != 0 || d2y != 0));          /* no repeated spine points (the reader drops nothing, but simple paths have none) */
  B(22); B(0xFB); U(layer); U(dtype); U(w); B(EXT); if ((EXT & 0x0C) == 0x0C) I(e0); if ((EXT & 0x03) == 0x03) I(e1);
  B(PLT); U(2); tok_put(PLT == 2 ? K_2D : K_GD, (uint64_t)(int64_t)d1x, (uint64_t)(int64_t)d1y); tok_put(PLT == 2 ? K_2D : K_GD, (uint64_t)(int64_t)d2x, (uint64_t)(int64_t)d2y); I(x); I(y);
#elif ELEM == 9      /* names through tables: the second CELL record by reference number (13), TEXT by TEXTSTRING reference, PLACEMENT by CELLNAME reference; the tables
                        follow the cells - with implicit numbering (records 3 / 5) or explicit numbers (4 / 6), variant TAB - and are resolved at END */
  B(19); B(0x7B); U(0); U(layer); U(dtype); I(x); I(y);
  B(17); B((uint8_t)(0xC0 | 0x30 | (RC << 1) | REFL)); U(1); I(x2); I(y2);
  B(13); U(1);
#if TAB == 0
  B(3); STR1('Z'); B(3); STR1('D'); B(5); STR1('t');
#else
  B(4); STR1('D'); U(1); B(4); STR1('Z'); U(0); B(6); STR1('t'); U(0);       /* explicit numbers, given out of order */
#endif
#elif ELEM == 10     /* PLACEMENT with magnification and angle (record 18): info byte C N X Y R M A F; reals as typed tokens (type-7 doubles on replay) */
  uint64_t mbits = nd_u64(); double mag = bc_i64_f(mbits), ang = (double)ANGV; uint64_t abits = (uint64_t)bc_f_i64(ang); ASSUME(mag == mag);      /* magnification: every double but NaNs; angle: the variant's value (the conversion to radians is one multiplication by a constant, no verdict in 600 s when symbolic) */
  B(18); B((uint8_t)(0x80 | 0x30 | 0x06 | REFL)); STR1('D'); tok_put(K_REAL, mbits, 0); tok_put(K_REAL, abits, 0); I(x); I(y);
  cell_by_name('D');
#elif ELEM == 11     /* XYRELATIVE / XYABSOLUTE with TEXT and PLACEMENT: positions accumulate in relative mode; text string and placement cell re-used from the modal variables */
  B(19); B(0x5B); STR1('t'); U(layer); U(dtype); I(x); I(y);
  B(17); B(0xB0); STR1('D'); I(x); I(y);
  B(16);                                   /* XYRELATIVE */
  B(19); B(0x18); I(x2); I(y2);            /* text, textlayer, texttype from the modal variables; position += (x2, y2) */
  B(17); B(0x30); I(x2); I(y2);            /* same placement cell; position += (x2, y2) */
  B(15);                                   /* XYABSOLUTE */
  B(19); B(0x18); I(x2); I(y2);
  cell_by_name('D');
#elif ELEM == 12     /* PROPERTY whose name is a PROPNAME reference (C = 1, N = 1) with four explicit values - signed integer, real (type 7), inline b-string,
                        unsigned integer - and the PROPNAME table (implicit numbering) after the element */
  uint64_t pv = nd_u64(), rb = nd_u64(); int64_t sv = (int64_t)nd_u64(); uint8_t bch = nd_u8(); ASSUME(sv != INT64_MIN);
  B(20); B(0x7B); U(layer); U(dtype); U(w); U(h); I(x); I(y);
  B(28); B(0x46); U(0); B(9); I(sv); B(7); tok_put(K_REALP, rb, 0); B(11); STR1(bch); B(8); U(pv);
  B(7); STR1('p');
#elif ELEM == 13     /* two PATH records: the first explicit with extension scheme 0x0A (both ends = half-width: the modal extensions take the VALUE w), the second with a
                        new half-width and nothing else but the position (info 0x58): extensions, point list, layer and datatype come from the modal variables */
  int32_t d1x = (int32_t)nd_range(-LIM, LIM), d1y = (int32_t)nd_range(-LIM, LIM), d2x = (int32_t)nd_range(-LIM, LIM), d2y = (int32_t)nd_range(-LIM, LIM);
  ASSUME((d1x != 0 || d1y != 0) && (d2x != 0 || d2y != 0));
  B(22); B(0xFB); U(layer); U(dtype); U(w); B(0x0A); B(4); U(2); tok_put(K_GD, (uint64_t)(int64_t)d1x, (uint64_t)(int64_t)d1y); tok_put(K_GD, (uint64_t)(int64_t)d2x, (uint64_t)(int64_t)d2y); I(x); I(y);
  B(22); B(0x58); U(h); I(x2); I(y2);
#elif ELEM == 14     /* the xy-mode is a modal variable that every CELL record resets to absolute: cell A ends in XYRELATIVE mode, the elements of the next cell are absolute */
  B(16); B(19); B(0x5B); STR1('t'); U(layer); U(dtype); I(x); I(y);
  cell_by_name('D');
  B(19); B(0x5B); STR1('t'); U(layer); U(dtype); I(x2); I(y2);
  B(19); B(0x5B); STR1('t'); U(layer); U(dtype); I(x); I(y);
  B(20); B(0x7B); U(layer); U(dtype); U(w); U(h); I(x2); I(y2);
#elif ELEM == 15     /* CTRAPEZOID of type CT, fully explicit, then - in XYRELATIVE mode - a second one that gives only a position: type, width, height, layer and datatype are modal */
  { int use_h = CT < 16 || CT == 20 || CT == 21 || CT == 24, use_w = CT != 20 && CT != 21;
    B(26); B((uint8_t)(0x9B | (use_w ? 0x40 : 0) | (use_h ? 0x20 : 0))); U(layer); U(dtype); B(CT); if (use_w) U(w); if (use_h) U(h); I(x); I(y);
    B(16); B(26); B(0x18); I(x2); I(y2); }
#elif ELEM == 16     /* RECTANGLE with a 2 x 3 repetition (type 1), then a RECTANGLE whose repetition field is type 0: re-use the previous repetition */
  uint32_t sx = (uint32_t)nd_range(0, LIM), sy = (uint32_t)nd_range(0, LIM);
  B(20); B(0x7F); U(layer); U(dtype); U(w); U(h); I(x); I(y); B(1); U(0); U(1); U(sx); U(sy);
  B(20); B(0x1C); I(x2); I(y2); B(0);
#endif
  B(2);                /* END */
  uint8_t fname[2] = {'f', 0}; uint32_t err = 0; Lib lib = {0};
  READ_OAS(&lib, fname, 0.0, 0.0, &err);
  CHECK(err == 0 && vf_open_count == 0 && !tok_kind_error, "loads without error, token kinds as the specification prescribes, handle released");
  CHECK(tok_k == tok_n, "every token of the file was consumed");
  CHECK(lib.f3.f1 == ((ELEM == 3 || ELEM == 9 || ELEM == 10 || ELEM == 11 || ELEM == 14) ? 2 : 1), "cells");
  Cell* c = lib_cell(&lib, 0); CHECK(c->f0[0] == 'A' && c->f0[1] == 0, "cell name");
#if ELEM == 0 || ELEM == 1
  CHECK(c->f1.f1 == (ELEM == 1 ? 2 : 1), "polygons");
  { Poly* p = ((Poly**)c->f1.f2)[0]; double* q = (double*)p->f1.f2; double X = (double)x, Y = (double)y, W = (double)w, H = ELEM == 1 ? (double)w : (double)h;
    CHECK(p->f0 == TAG(layer, dtype) && p->f1.f1 == 4, "32-bit layer and datatype, four vertices");
    CHECK(q[0] == X && q[1] == Y && q[2] == X + W && q[3] == Y && q[4] == X + W && q[5] == Y + H && q[6] == X && q[7] == Y + H, "rectangle corners (square: height = width)"); }
#if ELEM == 1
  { Poly* p = ((Poly**)c->f1.f2)[1]; double* q = (double*)p->f1.f2; double X = (double)x + (double)x2, Y = (double)y + (double)y2, W = (double)w;
    CHECK(p->f0 == TAG(layer, dtype) && p->f1.f1 == 4, "modal layer / datatype re-used");
    CHECK(q[0] == X && q[1] == Y && q[4] == X + W && q[5] == Y + W, "relative position adds to the modal position; modal width and (square) height re-used"); }
#endif
#elif ELEM == 2
  { CHECK(c->f1.f1 == 1, "one polygon"); Poly* p = ((Poly**)c->f1.f2)[0]; double* q = (double*)p->f1.f2;
    CHECK(p->f0 == TAG(layer, dtype) && p->f1.f1 == 3, "tag, three vertices");
    CHECK(q[0] == (double)x && q[1] == (double)y && q[2] == (double)x + (double)x2 && q[3] == (double)y + (double)y2 && q[4] == (double)x + (double)x2 + (double)(int32_t)w && q[5] == (double)y + (double)y2 + (double)(int32_t)h, "vertices = position + running sum of the deltas"); }
#elif ELEM == 3
  { CHECK(c->f2.f1 == 1, "one reference"); Ref* r = ((Ref**)c->f2.f2)[0];
    CHECK(r->f0 == 0 && *(Cell**)&r->f1 == lib_cell(&lib, 1) && lib_cell(&lib, 1)->f0[0] == 'D', "placement by name resolved to the cell defined later");
    CHECK(VXD(r->f2) == (double)x && VYD(r->f2) == (double)y && r->f4 == 1.0 && (r->f5 & 1) == refl, "origin, unit magnification, reflection bit");
    CHECK(r->f3 == (RC == 0 ? 0.0 : RC == 1 ? 3.14159265358979323846 * 0.5 : RC == 2 ? 3.14159265358979323846 : 3.14159265358979323846 * 1.5), "rotation code: 0 / 90 / 180 / 270 degrees"); }
#elif ELEM == 15
  { CHECK(c->f1.f1 == 2, "two polygons"); Poly* p = ((Poly**)c->f1.f2)[1]; double* q = (double*)p->f1.f2; int64_t rx[4], ry[4], gx[4], gy[4];
    int n = ref_ctrapezoid(CT, (int64_t)w, (int64_t)h, rx, ry);
    CHECK(p->f0 == TAG(layer, dtype) && p->f1.f1 == (uint64_t)n, "layer, datatype and ctrapezoid type from the modal variables");
    int exact = 1; for (int i = 0; i < 4; i++) if (i < n) { gx[i] = (int64_t)q[2 * i]; gy[i] = (int64_t)q[2 * i + 1]; if ((double)gx[i] != q[2 * i] || (double)gy[i] != q[2 * i + 1]) exact = 0; rx[i] += (int64_t)x + x2; ry[i] += (int64_t)y + y2; }
    CHECK(exact && ref_same_cycle(n, gx, gy, rx, ry), "the same shape (modal width / height) at the accumulated position"); }
#elif ELEM == 16
  { CHECK(c->f1.f1 == 2, "two polygons"); Poly* p0 = ((Poly**)c->f1.f2)[0]; Poly* p1 = ((Poly**)c->f1.f2)[1];
    uint64_t* u0 = (uint64_t*)((uint8_t*)&p0->f2 + 8); uint64_t* u1 = (uint64_t*)((uint8_t*)&p1->f2 + 8); double* s0 = (double*)((uint8_t*)&p0->f2 + 24); double* s1 = (double*)((uint8_t*)&p1->f2 + 24);
    CHECK(p0->f2.f0 == 1 && u0[0] == 2 && u0[1] == 3 && s0[0] == (double)sx && s0[1] == (double)sy, "first rectangle: rectangular repetition 2 x 3 with the given spacing");
    CHECK(p1->f2.f0 == 1 && u1[0] == 2 && u1[1] == 3 && s1[0] == (double)sx && s1[1] == (double)sy, "second rectangle: the same repetition (type 0 = re-use)");
    double* q = (double*)p1->f1.f2; CHECK(p1->f0 == TAG(layer, dtype) && q[0] == (double)x2 && q[1] == (double)y2 && q[4] == (double)x2 + (double)w && q[5] == (double)y2 + (double)h, "layer, datatype, width and height modal; its own position"); }
#elif ELEM == 13
  { CHECK(c->f3.f1 == 2, "two paths"); FPath* p1 = ((FPath**)c->f3.f2)[1]; struct S_struct_gdstk__FlexPathElement* el = p1->f1;
    CHECK(p1->f2 == 1 && el->f0 == TAG(layer, dtype), "layer and datatype from the modal variables");
    CHECK(p1->f0.f0.f1 == 3 && el->f1.f1 == 3, "point list from the modal variable");
    double* sp = (double*)p1->f0.f0.f2; double* wo = (double*)el->f1.f2; double X = (double)x2, Y = (double)y2;
    CHECK(sp[0] == X && sp[1] == Y && sp[4] == X + (double)d1x + (double)d2x && sp[5] == Y + (double)d1y + (double)d2y, "spine = new position + the modal deltas");
    CHECK(wo[0] == (double)h && wo[4] == (double)h, "the new half-width");
    /* modal extensions hold the VALUE of the first record's half-width (w), not "half-width" as a notion */
    if (w == 0) CHECK(el->f5 == 0 || (el->f5 == 3 && VXD(el->f6) == 0.0 && VYD(el->f6) == 0.0), "both ends flush");
    else if (w == h) CHECK(el->f5 == 2 || (el->f5 == 3 && VXD(el->f6) == (double)w && VYD(el->f6) == (double)w), "extensions equal to this path's half-width");
    else CHECK(el->f5 == 3 && VXD(el->f6) == (double)w && VYD(el->f6) == (double)w, "ends extended by the modal extension value (the first path's half-width)"); }
#elif ELEM == 14
  { Cell* d = lib_cell(&lib, 1); CHECK(d->f5.f1 == 2 && d->f1.f1 == 1, "two labels and a rectangle in the second cell");
    Label* l0 = ((Label**)d->f5.f2)[0]; Label* l1 = ((Label**)d->f5.f2)[1];
    CHECK(VXD(l0->f2) == (double)x2 && VYD(l0->f2) == (double)y2 && VXD(l1->f2) == (double)x && VYD(l1->f2) == (double)y, "text positions in the new cell are absolute");
    double* q0 = (double*)((Poly**)d->f1.f2)[0]->f1.f2;
    CHECK(q0[0] == (double)x2 && q0[1] == (double)y2, "geometry positions in the new cell are absolute"); }
#elif ELEM == 9
  { CHECK(lib.f3.f1 == 2, "two cells"); Cell* d = lib_cell(&lib, 1);
    CHECK(d->f0 && d->f0[0] == 'D' && d->f0[1] == 0, "second cell named through the CELLNAME table");
    CHECK(c->f5.f1 == 1 && c->f2.f1 == 1, "one label, one reference");
    Label* l = ((Label**)c->f5.f2)[0]; CHECK(l->f1 && l->f1[0] == 't' && l->f1[1] == 0 && l->f0 == TAG(layer, dtype) && VXD(l->f2) == (double)x && VYD(l->f2) == (double)y, "label text through the TEXTSTRING table; tag and position");
    Ref* r = ((Ref**)c->f2.f2)[0]; CHECK(r->f0 == 0 && *(Cell**)&r->f1 == d, "placement by reference number resolved to the cell with that CELLNAME number");
    CHECK(VXD(r->f2) == (double)x2 && VYD(r->f2) == (double)y2 && (r->f5 & 1) == REFL, "origin, reflection"); }
#elif ELEM == 10
  { CHECK(c->f2.f1 == 1, "one reference"); Ref* r = ((Ref**)c->f2.f2)[0];
    CHECK(r->f0 == 0 && *(Cell**)&r->f1 == lib_cell(&lib, 1), "resolved to the cell defined later");
    CHECK(bc_f_i64(r->f4) == bc_f_i64(mag), "magnification: the real as given");
    CHECK(bc_f_i64(r->f3) == bc_f_i64(ang * (3.14159265358979323846 / 180.0)), "rotation: the angle in degrees, converted to radians");
    CHECK(VXD(r->f2) == (double)x && VYD(r->f2) == (double)y && (r->f5 & 1) == REFL, "origin, reflection"); }
#elif ELEM == 11
  { CHECK(c->f5.f1 == 3 && c->f2.f1 == 2, "three labels, two references");
    Label* l0 = ((Label**)c->f5.f2)[0]; Label* l1 = ((Label**)c->f5.f2)[1]; Label* l2 = ((Label**)c->f5.f2)[2]; Ref* r0 = ((Ref**)c->f2.f2)[0]; Ref* r1 = ((Ref**)c->f2.f2)[1];
    CHECK(VXD(l0->f2) == (double)x && VYD(l0->f2) == (double)y && VXD(r0->f2) == (double)x && VYD(r0->f2) == (double)y, "absolute positions");
    CHECK(VXD(l1->f2) == (double)x + (double)x2 && VYD(l1->f2) == (double)y + (double)y2, "relative mode: text position accumulates");
    CHECK(VXD(r1->f2) == (double)x + (double)x2 && VYD(r1->f2) == (double)y + (double)y2, "relative mode: placement position accumulates (its own modal variable)");
    CHECK(VXD(l2->f2) == (double)x2 && VYD(l2->f2) == (double)y2, "absolute mode again: the value itself");
    CHECK(l1->f1 && l1->f1[0] == 't' && l1->f1 != l0->f1 && l1->f0 == TAG(layer, dtype) && l2->f1 && l2->f1[0] == 't', "text string, textlayer and texttype re-used from the modal variables (own copy of the string)");
    CHECK(r1->f0 == 0 && *(Cell**)&r1->f1 == lib_cell(&lib, 1) && *(Cell**)&r0->f1 == lib_cell(&lib, 1), "placement cell re-used from the modal variable; both resolved"); }
#elif ELEM == 8
  { CHECK(c->f3.f1 == 1 && c->f1.f1 == 0, "one path, no polygon"); FPath* p = ((FPath**)c->f3.f2)[0]; struct S_struct_gdstk__FlexPathElement* el = p->f1;
    CHECK(p->f2 == 1 && el->f0 == TAG(layer, dtype) && (p->f3 & 1), "one element with the 32-bit layer and datatype; a simple path");
    CHECK(p->f0.f0.f1 == 3 && el->f1.f1 == 3, "three spine points, one width/offset entry each");
    double* sp = (double*)p->f0.f0.f2; double* wo = (double*)el->f1.f2;
    double X = (double)x, Y = (double)y;
    CHECK(sp[0] == X && sp[1] == Y && sp[2] == X + (double)d1x && sp[3] == Y + (double)d1y && sp[4] == X + (double)d1x + (double)d2x && sp[5] == Y + (double)d1y + (double)d2y, "spine = position + running sum of the deltas");
    for (int i = 0; i < 3; i++) CHECK(wo[2 * i] == (double)w && wo[2 * i + 1] == 0.0, "half-width as given at every point, no offset");
    /* end style the extension scheme denotes: start / end extension = 0 (flush), half-width, or the explicit value */
    double xs = (EXT & 0x0C) == 0x04 ? 0.0 : (EXT & 0x0C) == 0x08 ? (double)w : (double)e0, xe = (EXT & 0x03) == 0x01 ? 0.0 : (EXT & 0x03) == 0x02 ? (double)w : (double)e1;
    if (xs == 0.0 && xe == 0.0) CHECK(el->f5 == 0 || (el->f5 == 3 && VXD(el->f6) == 0.0 && VYD(el->f6) == 0.0), "both ends flush");
    else if (xs == (double)w && xe == (double)w) CHECK(el->f5 == 2 || (el->f5 == 3 && VXD(el->f6) == xs && VYD(el->f6) == xe), "both ends extended by the half-width");
    else CHECK(el->f5 == 3 && VXD(el->f6) == xs && VYD(el->f6) == xe, "ends extended by exactly the denoted lengths"); }
#elif ELEM == 12
  { CHECK(c->f1.f1 == 1, "one polygon"); Poly* p = ((Poly**)c->f1.f2)[0]; struct S_struct_gdstk__Property* pr = p->f3;
    CHECK(pr && pr->f2 == 0 && pr->f0 && pr->f0[0] == 'p' && pr->f0[1] == 0, "one property, named through the PROPNAME table");
    if (pr) { struct S_struct_gdstk__PropertyValue* v0 = pr->f1; CHECK(v0 && v0->f0 == 1 && (int64_t)PV_U64(v0) == sv, "signed integer value");
      struct S_struct_gdstk__PropertyValue* v1 = v0 ? v0->f2 : 0; CHECK(v1 && v1->f0 == 2 && PV_U64(v1) == rb, "real value, bit for bit");
      struct S_struct_gdstk__PropertyValue* v2 = v1 ? v1->f2 : 0; CHECK(v2 && v2->f0 == 3 && PV_U64(v2) == 1 && PV_BYTES(v2)[0] == bch, "inline string value: its byte, whatever it is");
      struct S_struct_gdstk__PropertyValue* v3 = v2 ? v2->f2 : 0; CHECK(v3 && v3->f0 == 0 && PV_U64(v3) == pv && v3->f2 == 0, "unsigned integer value; four values in file order"); } }
#elif ELEM == 7
  { CHECK(c->f1.f1 == 1, "one polygon"); Poly* p = ((Poly**)c->f1.f2)[0];
    struct S_struct_gdstk__Property* pr = p->f3; int np = 0;
    for (int k = 0; k < 3; k++) if (pr) { np++;
      CHECK(pr->f0 && pr->f0[0] == 'p' && pr->f0[1] == 0, "property name (inline string; re-used from the modal variable by the second record)");
      struct S_struct_gdstk__PropertyValue* v0 = pr->f1; CHECK(v0 != 0, "first value present");
      if (v0) { CHECK(v0->f0 == 0 && PV_U64(v0) == pv, "first value: the unsigned integer, still an unsigned integer after the string references were resolved");
        struct S_struct_gdstk__PropertyValue* v1 = v0->f2; CHECK(v1 != 0, "second value present");
        if (v1) { CHECK(v1->f0 == 3 && PV_U64(v1) == 1 && PV_BYTES(v1) && PV_BYTES(v1)[0] == 'q', "second value: the referenced PROPSTRING, resolved at END"); CHECK(v1->f2 == 0, "exactly two values, in file order"); } }
      pr = pr->f2; }
    CHECK(np == 2 && pr == 0, "two properties on the element"); }
#elif ELEM == 5 || ELEM == 6
  { CHECK(c->f1.f1 == 1, "one polygon"); Poly* p = ((Poly**)c->f1.f2)[0]; double* q = (double*)p->f1.f2;
    int64_t rx[4], ry[4], gx[4], gy[4];
#if ELEM == 5
    int n = ref_trapezoid(VERT, (int64_t)w, (int64_t)h, da, db, rx, ry);
#else
    int n = ref_ctrapezoid(CT, (int64_t)w, (int64_t)h, rx, ry);
#endif
    CHECK(p->f0 == TAG(layer, dtype) && p->f1.f1 == (uint64_t)n, "32-bit layer and datatype; vertex count of the shape");
    int exact = 1; for (int i = 0; i < 4; i++) if (i < n) { gx[i] = (int64_t)q[2 * i]; gy[i] = (int64_t)q[2 * i + 1]; if ((double)gx[i] != q[2 * i] || (double)gy[i] != q[2 * i + 1]) exact = 0; rx[i] += x; ry[i] += y; OBS("x", gx[i]); OBS("y", gy[i]); }
    CHECK(exact && ref_same_cycle(n, gx, gy, rx, ry), "the vertices the record definition gives (as a cycle: any starting vertex, either direction)"); }
#elif ELEM == 4
  { CHECK(c->f5.f1 == 1, "one label"); Label* l = ((Label**)c->f5.f2)[0];
    CHECK(l->f0 == TAG(layer, dtype) && l->f1[0] == ch && l->f1[1] == 0 && VXD(l->f2) == (double)x && VYD(l->f2) == (double)y, "text, text layer / type, position"); }
#endif
  WITNESS_POINT();
  return 0;
}
