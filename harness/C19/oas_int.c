/* C19: OASIS integer / delta codecs: decode(encode(v)) == v, all bytes consumed, no error flag.
   Real code: oasis_write_unsigned_integer/_integer/_2delta/_3delta/_gdelta and the matching readers,
   on a real OasisStream in memory mode.  OP selects the codec. */
#include "prologue.h"
#include "vfile.h"
#include "zstub.h"
typedef struct S_struct_gdstk__OasisStream Stream;
#define W_UINT _ZN5gdstk28oasis_write_unsigned_integerERNS_11OasisStreamEm
#define R_UINT _ZN5gdstk27oasis_read_unsigned_integerERNS_11OasisStreamE
#define W_INT _ZN5gdstk19oasis_write_integerERNS_11OasisStreamEl
#define R_INT _ZN5gdstk18oasis_read_integerERNS_11OasisStreamE
#define W_2D _ZN5gdstk18oasis_write_2deltaERNS_11OasisStreamEll
#define R_2D _ZN5gdstk17oasis_read_2deltaERNS_11OasisStreamERlS2_
#define W_3D _ZN5gdstk18oasis_write_3deltaERNS_11OasisStreamEll
#define R_3D _ZN5gdstk17oasis_read_3deltaERNS_11OasisStreamERlS2_
#define W_GD _ZN5gdstk18oasis_write_gdeltaERNS_11OasisStreamEll
#define R_GD _ZN5gdstk17oasis_read_gdeltaERNS_11OasisStreamERlS2_
#define BUF 32
int main(void) {
  uint8_t* buf = malloc(BUF);
  memset(buf, 0xA5, BUF);         /* stale bytes with continuation bit set: a reader that runs on is caught */
  Stream out = {0}; out.f1 = buf; out.f2 = buf; out.f3 = BUF;
  uint64_t x = 0, y = 0, rx = 0, ry = 0;
#if OP == 0      /* unsigned */
  x = nd_u64();
  W_UINT(&out, x);
#elif OP == 1    /* signed; INT64_MIN excluded: -value is UB in the writer (reported separately, no caller passes it) */
  x = nd_u64(); ASSUME(x != 0x8000000000000000ULL);
  W_INT(&out, x);
#elif OP == 2    /* 2-delta: one component zero */
  x = nd_u64(); y = nd_u64(); ASSUME(x == 0 || y == 0); ASSUME(x != 0x8000000000000000ULL && y != 0x8000000000000000ULL);
  ASSUME((int64_t)x < ((int64_t)1 << 62) && (int64_t)x > -((int64_t)1 << 62) && (int64_t)y < ((int64_t)1 << 62) && (int64_t)y > -((int64_t)1 << 62));
  W_2D(&out, x, y);
#elif OP == 3    /* 3-delta: octangular */
  x = nd_u64(); y = nd_u64();
  ASSUME((int64_t)x < ((int64_t)1 << 61) && (int64_t)x > -((int64_t)1 << 61) && (int64_t)y < ((int64_t)1 << 61) && (int64_t)y > -((int64_t)1 << 61));
  ASSUME(x == 0 || y == 0 || x == y || x == (uint64_t)0 - y);
  W_3D(&out, x, y);
#elif OP == 4    /* g-delta: any pair */
  x = nd_u64(); y = nd_u64();
  ASSUME((int64_t)x < ((int64_t)1 << 60) && (int64_t)x > -((int64_t)1 << 60) && (int64_t)y < ((int64_t)1 << 62) && (int64_t)y > -((int64_t)1 << 62));
  W_GD(&out, x, y);
#endif
  uint64_t written = (uint64_t)(out.f2 - buf);
  CHECK(out.f1 == buf && written >= 1 && written <= 20, "writer stayed inside its buffer");
  Stream in = {0}; in.f1 = buf; in.f2 = buf; in.f3 = BUF;
#if OP == 0
  rx = R_UINT(&in);
#elif OP == 1
  rx = R_INT(&in);
#elif OP == 2
  R_2D(&in, &rx, &ry);
#elif OP == 3
  R_3D(&in, &rx, &ry);
#elif OP == 4
  R_GD(&in, &rx, &ry);
#endif
  OBS("rx", rx); OBS("ry", ry); OBS("len", written); OBS("err", in.f7);
  CHECK(in.f7 == 0, "no error flag");
  CHECK(rx == x, "x decoded == x encoded");
  CHECK(ry == y, "y decoded == y encoded");
  CHECK((uint64_t)(in.f2 - buf) == written, "reader consumed exactly the bytes written");
  WITNESS_POINT();
  return 0;
}
