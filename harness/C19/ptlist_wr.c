/* C19: the point-list WRITER against a reference decoder written from the OASIS point-list definitions (types 0..4):
   whichever list type oasis_write_point_list selects for the N vertices of P, decoding what it emitted - with the implicit
   closing vertex of the 1-delta types for polygons - gives back exactly P. Together with point_list_types_vs_reference
   (the real READER on specification-encoded lists) this is the round trip, for lists longer than the writer-plus-reader
   query can reach: the writer alone allocates nothing, so the computed list type may stay symbolic. */
#include "prologue.h"
#include "vfile.h"
#include "zstub.h"
#include "oastok.h"
typedef struct S_struct_gdstk__OasisStream Stream;
#define W_PL _ZN5gdstk22oasis_write_point_listERNS_11OasisStreamERNS_5ArrayINS_7IntVec2EEEb
typedef ARGT__ZN5gdstk22oasis_write_point_listERNS_11OasisStreamERNS_5ArrayINS_7IntVec2EEEb_1 IVARR;
#ifndef N
#define N 5
#endif
#ifndef R
#define R 7
#endif
#define BUF 64
#include "oas_ref_tok.h"
int main(void) {
  uint8_t* buf = malloc(BUF); memset(buf, 0xA5, BUF);
  int64_t px[N], py[N];
  int64_t* pts = malloc(sizeof(int64_t) * 2 * N);              /* IntVec2 = two int64 */
  for (int i = 0; i < N; i++) { px[i] = nd_range(-R, R); py[i] = nd_range(-R, R); pts[2 * i] = px[i]; pts[2 * i + 1] = py[i]; }
#ifdef MANHATTAN      /* optional focus: axis-parallel edges only (the 1-delta list types and their fall-backs) */
  for (int i = 1; i < N; i++) ASSUME(px[i] == px[i - 1] || py[i] == py[i - 1]);
  if (CLOSED) ASSUME(px[0] == px[N - 1] || py[0] == py[N - 1]);
#endif
  IVARR arr; arr.f0 = N; arr.f1 = N; arr.f2 = (void*)pts;
  Stream out = {0}; out.f1 = buf; out.f2 = buf; out.f3 = BUF;
  W_PL(&out, &arr, CLOSED);
#ifdef REAL
  rp = buf; rend = out.f2;
#endif
  /* reference decoding: vertex 0 is given by the record's position; the list carries the others */
  int64_t qx[N + 2], qy[N + 2]; int nq = 1; qx[0] = px[0]; qy[0] = py[0];
  uint8_t type = nx_byte(); uint64_t cnt = nx_uint();
  OBS("type", type); OBS("count", cnt);
  CHECK(type <= 4, "a point-list type of the specification");
  CHECK(cnt >= 1 && cnt <= (uint64_t)N, "vertex count within the list");
  for (int i = 0; i < N; i++) if ((uint64_t)i < cnt && nq <= N) { int64_t dx = 0, dy = 0;
    if (type == 0 || type == 1) { int64_t d = nx_int(); int horizontal = (type == 0) == (i % 2 == 0); if (horizontal) dx = d; else dy = d; }
    else if (type == 2) nx_2d(&dx, &dy); else if (type == 3) nx_3d(&dx, &dy); else nx_gd(&dx, &dy);
    qx[nq] = qx[nq - 1] + dx; qy[nq] = qy[nq - 1] + dy; nq++; }
  if (CLOSED && (type == 0 || type == 1) && nq <= N) {        /* implicit vertex: the next delta keeps alternating and the closing edge is perpendicular to it */
    int horizontal = (type == 0) == (cnt % 2 == 0);
    if (horizontal) { qx[nq] = qx[0]; qy[nq] = qy[nq - 1]; } else { qx[nq] = qx[nq - 1]; qy[nq] = qy[0]; }
    nq++; }
  CHECK(!bad && nx_done(), "well-formed list: token kinds as the list type prescribes, nothing left over");
  CHECK(nq == N, "the list denotes as many vertices as the polygon / path has");
  for (int i = 0; i < N; i++) if (i < nq) { OBS("x", qx[i]); OBS("y", qy[i]); CHECK(qx[i] == px[i] && qy[i] == py[i], "vertex reconstructed by the reference decoder"); }
  WITNESS_POINT();
  return 0;
}
