/* C19: the point-list WRITER against a reference decoder written from the OASIS point-list definitions (types 0..4):
   whichever list type oasis_write_point_list selects for the N vertices of P, decoding what it emitted - with the implicit
   closing vertex of the 1-delta types for polygons - gives back exactly P. Together with point_list_types_vs_reference
   (the real READER on specification-encoded lists) this is the round trip, for lists longer than the writer-plus-reader
   query can reach: the writer alone allocates nothing, so the computed list type may stay symbolic. */
#include "prologue.h"
#include "vfile.h"
#include "zstub.h"
#include "oastok.h"
typedef struct S_struct_gdstk__OasisStream Stream;
#define W_PL _ZN5gdstk22oasis_write_point_listERNS_11OasisStreamERNS_5ArrayINS_7IntVec2EEEb
typedef ARGT__ZN5gdstk22oasis_write_point_listERNS_11OasisStreamERNS_5ArrayINS_7IntVec2EEEb_1 IVARR;
#ifndef N
#define N 5
#endif
#ifndef R
#define R 7
#endif
#define BUF 64
static int bad;                     /* the emitted list is not well formed */
#ifdef REAL
/* byte-level codecs of the specification (7.2 unsigned, 7.2.2 signed, 7.5 deltas), used only when the real writer produced bytes */
static uint8_t* rp; static uint8_t* rend;
static uint64_t rd_u(void) { uint64_t v = 0; int sh = 0; for (;;) { if (rp >= rend) { bad = 1; return 0; } uint8_t b = *rp++; v |= (uint64_t)(b & 0x7f) << sh; sh += 7; if (!(b & 0x80)) return v; } }
static uint8_t nx_byte(void) { if (rp >= rend) { bad = 1; return 0; } return *rp++; }
static uint64_t nx_uint(void) { return rd_u(); }
static int64_t nx_int(void) { uint64_t u = rd_u(); int64_t m = (int64_t)(u >> 1); return (u & 1) ? -m : m; }
static void nx_2d(int64_t* x, int64_t* y) { uint64_t u = rd_u(); int64_t m = (int64_t)(u >> 2); *x = *y = 0; switch (u & 3) { case 0: *x = m; break; case 1: *y = m; break; case 2: *x = -m; break; default: *y = -m; } }
static void oct(uint64_t dir, int64_t m, int64_t* x, int64_t* y) { static const int dx[8] = {1, 0, -1, 0, 1, -1, -1, 1}, dy[8] = {0, 1, 0, -1, 1, 1, -1, -1}; *x = dx[dir] * m; *y = dy[dir] * m; }
static void nx_3d(int64_t* x, int64_t* y) { uint64_t u = rd_u(); oct(u & 7, (int64_t)(u >> 3), x, y); }
static void nx_gd(int64_t* x, int64_t* y) { uint64_t u = rd_u(); if (!(u & 1)) { oct((u >> 1) & 7, (int64_t)(u >> 4), x, y); return; }
  int64_t m = (int64_t)(u >> 2); *x = (u & 2) ? -m : m; uint64_t w = rd_u(); m = (int64_t)(w >> 1); *y = (w & 1) ? -m : m; }
static int nx_done(void) { return rp == rend; }
#else
static struct oas_tok nx(uint8_t kind) { struct oas_tok t = {0, 0, 0}; if (tok_k >= tok_n) { bad = 1; return t; } t = TOK[tok_k++]; if (t.kind != kind) bad = 1; return t; }
static uint8_t nx_byte(void) { return (uint8_t)nx(K_BYTE).a; }
static uint64_t nx_uint(void) { return nx(K_UINT).a; }
static int64_t nx_int(void) { return (int64_t)nx(K_INT).a; }
static void nx_2d(int64_t* x, int64_t* y) { struct oas_tok t = nx(K_2D); *x = (int64_t)t.a; *y = (int64_t)t.b; if (*x != 0 && *y != 0) bad = 1; }
static void nx_3d(int64_t* x, int64_t* y) { struct oas_tok t = nx(K_3D); *x = (int64_t)t.a; *y = (int64_t)t.b; if (*x != 0 && *y != 0 && *x != *y && *x != -*y) bad = 1; }
static void nx_gd(int64_t* x, int64_t* y) { struct oas_tok t = nx(K_GD); *x = (int64_t)t.a; *y = (int64_t)t.b; }
static int nx_done(void) { return tok_k == tok_n; }
#endif
int main(void) {
  uint8_t* buf = malloc(BUF); memset(buf, 0xA5, BUF);
  int64_t px[N], py[N];
  int64_t* pts = malloc(sizeof(int64_t) * 2 * N);              /* IntVec2 = two int64 */
  for (int i = 0; i < N; i++) { px[i] = nd_range(-R, R); py[i] = nd_range(-R, R); pts[2 * i] = px[i]; pts[2 * i + 1] = py[i]; }
#ifdef MANHATTAN      /* optional focus: axis-parallel edges only (the 1-delta list types and their fall-backs) */
  for (int i = 1; i < N; i++) ASSUME(px[i] == px[i - 1] || py[i] == py[i - 1]);
  if (CLOSED) ASSUME(px[0] == px[N - 1] || py[0] == py[N - 1]);
#endif
  IVARR arr; arr.f0 = N; arr.f1 = N; arr.f2 = (void*)pts;
  Stream out = {0}; out.f1 = buf; out.f2 = buf; out.f3 = BUF;
  W_PL(&out, &arr, CLOSED);
#ifdef REAL
  rp = buf; rend = out.f2;
#endif
  /* reference decoding: vertex 0 is given by the record's position; the list carries the others */
  int64_t qx[N + 2], qy[N + 2]; int nq = 1; qx[0] = px[0]; qy[0] = py[0];
  uint8_t type = nx_byte(); uint64_t cnt = nx_uint();
  OBS("type", type); OBS("count", cnt);
  CHECK(type <= 4, "a point-list type of the specification");
  CHECK(cnt >= 1 && cnt <= (uint64_t)N, "vertex count within the list");
  for (int i = 0; i < N; i++) if ((uint64_t)i < cnt && nq <= N) { int64_t dx = 0, dy = 0;
    if (type == 0 || type == 1) { int64_t d = nx_int(); int horizontal = (type == 0) == (i % 2 == 0); if (horizontal) dx = d; else dy = d; }
    else if (type == 2) nx_2d(&dx, &dy); else if (type == 3) nx_3d(&dx, &dy); else nx_gd(&dx, &dy);
    qx[nq] = qx[nq - 1] + dx; qy[nq] = qy[nq - 1] + dy; nq++; }
  if (CLOSED && (type == 0 || type == 1) && nq <= N) {        /* implicit vertex: the next delta keeps alternating and the closing edge is perpendicular to it */
    int horizontal = (type == 0) == (cnt % 2 == 0);
    if (horizontal) { qx[nq] = qx[0]; qy[nq] = qy[nq - 1]; } else { qx[nq] = qx[nq - 1]; qy[nq] = qy[0]; }
    nq++; }
  CHECK(!bad && nx_done(), "well-formed list: token kinds as the list type prescribes, nothing left over");
  CHECK(nq == N, "the list denotes as many vertices as the polygon / path has");
  for (int i = 0; i < N; i++) if (i < nq) { OBS("x", qx[i]); OBS("y", qy[i]); CHECK(qx[i] == px[i] && qy[i] == py[i], "vertex reconstructed by the reference decoder"); }
  WITNESS_POINT();
  return 0;
}
