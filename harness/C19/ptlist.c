/* C19: point lists: oasis_read_point_list(oasis_write_point_list(P)) reconstructs the vertices of P, whichever of the
   five list types the writer picks (Manhattan H/V-first with the implicit closing point, Manhattan, octangular, general). */
#include "prologue.h"
#include "vfile.h"
#include "zstub.h"
#include "oastok.h"
typedef struct S_struct_gdstk__OasisStream Stream;
#define W_PL _ZN5gdstk22oasis_write_point_listERNS_11OasisStreamERNS_5ArrayINS_7IntVec2EEEb
#define R_PL _ZN5gdstk21oasis_read_point_listERNS_11OasisStreamEdbRNS_5ArrayINS_4Vec2EEE
typedef ARGT__ZN5gdstk22oasis_write_point_listERNS_11OasisStreamERNS_5ArrayINS_7IntVec2EEEb_1 IVARR;
typedef ARGT__ZN5gdstk21oasis_read_point_listERNS_11OasisStreamEdbRNS_5ArrayINS_4Vec2EEE_3 VARR;
#ifndef N
#define N 3
#endif
#ifndef R
#define R 7
#endif
#define BUF 48
int main(void) {
  uint8_t* buf = malloc(BUF); memset(buf, 0xA5, BUF);
  int64_t px[N], py[N];
  int64_t* pts = malloc(sizeof(int64_t) * 2 * N);              /* IntVec2 = two int64 */
  for (int i = 0; i < N; i++) { px[i] = nd_range(-R, R); py[i] = nd_range(-R, R); pts[2 * i] = px[i]; pts[2 * i + 1] = py[i]; }
  IVARR arr; arr.f0 = N; arr.f1 = N; arr.f2 = (void*)pts;
  Stream out = {0}; out.f1 = buf; out.f2 = buf; out.f3 = BUF;
  W_PL(&out, &arr, CLOSED);
  uint64_t written = (uint64_t)(out.f2 - buf);
#ifdef REAL
  CHECK(written >= 2 && written <= 2 + 2 * (N - 1), "list header + at most two bytes per delta at this coordinate range");
#else
  written = (uint64_t)tok_n;
#endif
  Stream in = {0}; in.f1 = buf; in.f2 = buf; in.f3 = BUF;
  double* rv = malloc(sizeof(double) * 2 * (N + 2));           /* Vec2 = two doubles */
  VARR res; res.f0 = N + 2; res.f1 = 1; res.f2 = (void*)rv;
  rv[0] = (double)px[0]; rv[1] = (double)py[0];
  uint64_t num = R_PL(&in, 1.0, CLOSED, &res);
  OBS("num", num); OBS("count", res.f1);
  CHECK(in.f7 == 0, "no error flag");
#ifdef REAL
  CHECK((uint64_t)(in.f2 - buf) == written, "reader consumed exactly the bytes written");
#else
  CHECK(tok_k == tok_n && !tok_kind_error, "reader consumed exactly the tokens written, kind by kind");
#endif
  CHECK(res.f1 == N, "same number of vertices");
  double* q = (double*)res.f2;
  for (int i = 0; i < N; i++) if ((uint64_t)i < res.f1) { OBS("x", (int64_t)q[2 * i]); OBS("y", (int64_t)q[2 * i + 1]);
    CHECK(q[2 * i] == (double)px[i] && q[2 * i + 1] == (double)py[i], "vertex reconstructed"); }
  WITNESS_POINT();
  return 0;
}
