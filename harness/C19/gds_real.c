/* C19: GDSII 8-byte real: to_double(from_double(v)) is within one unit in the last place of v and keeps the sign,
   for every double with 16^-64 <= |v| < 16^63; zero maps to zero; to_double of any pattern is finite. */
#include "harness.h"
double my_log2(double); double my_ceil(double); double my_exp2(double); double my_pow(double, double);
#include "prologue.h"
#include "libm.h"
#define FROM _ZN5gdstk22gdsii_real_from_doubleEd
#define TO _ZN5gdstk20gdsii_real_to_doubleEm
int main(void) {
#if OP == 0
  uint64_t b = nd_u64();
  uint64_t ex = (b >> 52) & 0x7ff;
  ASSUME(ex >= 1023 - 256 && ex < 1023 + 252);          /* 2^-256 <= |v| < 2^252 */
#ifdef EXCLUDE_C19_GDSREAL_TOP
  ASSUME(!(ex == 1023 + 251 && ((b >> 12) & 0xffffffffffULL) == 0xffffffffffULL));
#endif
  double v = bc_i64_f(b);
  uint64_t r = FROM(v);
  double d = TO(r);
  uint64_t db = bc_f_i64(d);
  OBS("r", r); OBS("d", db);
  CHECK((db >> 63) == (b >> 63), "sign preserved");
  uint64_t ma = b & 0x7fffffffffffffffULL, mb = db & 0x7fffffffffffffffULL;
  CHECK(ma >= mb ? ma - mb <= 1 : mb - ma <= 1, "round trip within one unit in the last place");
  /* the stored form is what the format calls a real: 7-bit excess-64 exponent, 56-bit mantissa < 1 */
  CHECK(((r >> 63) != 0) == (v < 0), "sign bit of the stored real");
#elif OP == 1
  CHECK(FROM(0.0) == 0, "zero maps to the all-zero real");
  CHECK(TO(0) == 0.0, "all-zero real maps to zero");
  uint64_t r = nd_u64();
  double d = TO(r); uint64_t db = bc_f_i64(d);
  OBS("d", db);
  CHECK(((db >> 52) & 0x7ff) != 0x7ff, "every 8-byte real decodes to a finite double");
  CHECK((r & 0x00ffffffffffffffULL) == 0 || ((db >> 63) != 0) == ((r >> 63) != 0), "sign bit decoded");
#endif
  WITNESS_POINT();
  return 0;
}
