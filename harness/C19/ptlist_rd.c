/* C19: oasis_read_point_list on each explicit list TYPE 0..5 (as a specification encoder would emit it, including
   type 5 "double delta" which gdstk never writes) reconstructs the vertices the OASIS specification defines. */
#include "prologue.h"
#include "vfile.h"
#include "zstub.h"
#include "oastok.h"
typedef struct S_struct_gdstk__OasisStream Stream;
#define R_PL _ZN5gdstk21oasis_read_point_listERNS_11OasisStreamEdbRNS_5ArrayINS_4Vec2EEE
typedef ARGT__ZN5gdstk21oasis_read_point_listERNS_11OasisStreamEdbRNS_5ArrayINS_4Vec2EEE_3 VARR;
#ifndef M
#define M 2          /* deltas in the list */
#endif
#ifndef R
#define R 15
#endif
static const int DX[8] = {1, 0, -1, 0, 1, -1, -1, 1}, DY[8] = {0, 1, 0, -1, 1, 1, -1, -1};
int main(void) {
  int64_t x0 = nd_range(-R, R), y0 = nd_range(-R, R);
  int64_t ex[M + 2], ey[M + 2]; int n = 1; ex[0] = x0; ey[0] = y0;
  tok_put(K_BYTE, TYPE, 0); tok_put(K_UINT, M, 0);
  int64_t ddx = 0, ddy = 0;
  for (int i = 0; i < M; i++) {
    int64_t dx = 0, dy = 0;
#if TYPE == 0 || TYPE == 1
    int64_t d = nd_range(-R, R); int horiz = ((i % 2) == 0) == (TYPE == 0);
    if (horiz) dx = d; else dy = d; tok_put(K_INT, (uint64_t)d, 0);
#elif TYPE == 2
    int dir = (int)nd_range(0, 3); int64_t m = nd_range(0, R); dx = DX[dir] * m; dy = DY[dir] * m; tok_put(K_2D, (uint64_t)dx, (uint64_t)dy);
#elif TYPE == 3
    int dir = (int)nd_range(0, 7); int64_t m = nd_range(0, R); dx = DX[dir] * m; dy = DY[dir] * m; tok_put(K_3D, (uint64_t)dx, (uint64_t)dy);
#elif TYPE == 4
    dx = nd_range(-R, R); dy = nd_range(-R, R); tok_put(K_GD, (uint64_t)dx, (uint64_t)dy);
#elif TYPE == 5
    { int64_t a = nd_range(-R, R), b = nd_range(-R, R); tok_put(K_GD, (uint64_t)a, (uint64_t)b); ddx += a; ddy += b; dx = ddx; dy = ddy; }
#endif
    ex[n] = ex[n - 1] + dx; ey[n] = ey[n - 1] + dy; n++;
  }
#if (TYPE == 0 || TYPE == 1)
  if (CLOSED) { /* implicit closing vertex: keeps the alternation and returns to the first point's other coordinate */
    int horiz = ((M % 2) == 0) == (TYPE == 0);
    if (horiz) { ex[n] = ex[0]; ey[n] = ey[n - 1]; } else { ex[n] = ex[n - 1]; ey[n] = ey[0]; }
    n++; }
#endif
  Stream in = {0};
  double* rv = malloc(sizeof(double) * 2 * (M + 3));
  VARR res; res.f0 = M + 3; res.f1 = 1; res.f2 = (void*)rv; rv[0] = (double)x0; rv[1] = (double)y0;
  uint64_t num = R_PL(&in, 1.0, CLOSED, &res);
  OBS("num", num); OBS("count", res.f1);
  CHECK(in.f7 == 0 && !tok_kind_error && tok_k == tok_n, "list accepted, every token consumed with the kind the specification prescribes");
  CHECK(res.f1 == (uint64_t)n && num == (uint64_t)(n - 1), "vertex count");
  double* q = (double*)res.f2;
  for (int i = 0; i < M + 2; i++) if (i < n && (uint64_t)i < res.f1) { OBS("x", (int64_t)q[2 * i]); OBS("y", (int64_t)q[2 * i + 1]);
    CHECK(q[2 * i] == (double)ex[i] && q[2 * i + 1] == (double)ey[i], "vertex equals the specification's reading"); }
  WITNESS_POINT();
  return 0;
}
