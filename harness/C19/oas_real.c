/* C19: OASIS reals.
   OP 0: read_real(write_real(v)) is bit-identical to v for every finite double, whichever of the three forms the writer picks.
   OP 1: read_real_by_type for TYPE 0..7 on arbitrary bytes equals the reference reading of the grammar
         (unsigned integer / reciprocal / ratio as the nearest double, IEEE float32 / float64 little endian). */
#include "harness.h"
double my_trunc(double); double my_fabs(double); double uf_div(double, double); double my_ceil(double); double my_floor(double); int64_t my_llround(double); int64_t my_lround(double);
#include "prologue.h"
#include "vfile.h"
#include "zstub.h"
#include "libm.h"
#include "ufdiv.h"
#ifdef REAL
#define uf_div(a, b) ((a) / (b))
#endif
typedef struct S_struct_gdstk__OasisStream Stream;
#define W_REAL _ZN5gdstk16oasis_write_realERNS_11OasisStreamEd
#define R_REAL _ZN5gdstk15oasis_read_realERNS_11OasisStreamE
#define R_REAL_T _ZN5gdstk23oasis_read_real_by_typeERNS_11OasisStreamENS_13OasisDataTypeE
#define BUF 32
static uint8_t* buf;
static uint64_t ref_uint(int* pos) { uint64_t acc = 0; int i = 0; for (;;) { uint8_t b = buf[*pos + i]; acc |= (uint64_t)(b & 0x7f) << (7 * i); i++; if (!(b & 0x80)) break; } *pos += i; return acc; }
int main(void) {
  buf = malloc(BUF); memset(buf, 0xA5, BUF);
#if OP == 0
  uint64_t b = nd_u64(); ASSUME(((b >> 52) & 0x7ff) != 0x7ff);      /* finite */
#ifdef BIG_INTEGRAL
  ASSUME(((b >> 52) & 0x7ff) >= 1023 + 52);      /* retry: |v| >= 2^52, every such double is integral - no division is involved */
#endif
#ifdef INTEGRAL_ONLY
  { double t = bc_i64_f(b); ASSUME(t == (double)(int64_t)t && t > -1e15 && t < 1e15); }
#endif
  double v = bc_i64_f(b);
  Stream out = {0}; out.f1 = buf; out.f2 = buf; out.f3 = BUF;
  W_REAL(&out, v);
  uint64_t written = (uint64_t)(out.f2 - buf);
  CHECK(written >= 2 && written <= 11, "writer emitted type byte + payload");
  Stream in = {0}; in.f1 = buf; in.f2 = buf; in.f3 = BUF;
  double d = R_REAL(&in); uint64_t db = bc_f_i64(d);
  OBS("type", buf[0]); OBS("d", db); OBS("len", written);
  CHECK(in.f7 == 0, "no error flag");
  CHECK(d == v, "value read back equals value written");
  CHECK(db == b || (v == 0 && d == 0), "bit-identical (the sign of zero is not representable in the integer form)");
  CHECK((uint64_t)(in.f2 - buf) == written, "reader consumed exactly the bytes written");
#elif OP == 1
  /* two integers of 1..3 bytes each (the integer codec itself is the subject of oas_int_*), or 8 raw bytes */
  memset(buf, 0, BUF);
  int p = 0;
#if TYPE <= 5
  for (int k = 0; k < 2; k++) { int L = (int)nd_range(1, 3); for (int i = 0; i < 3; i++) if (i < L) { uint8_t x = nd_u8(); buf[p + i] = (i == L - 1) ? (x & 0x7f) : (x | 0x80); } p += L; }
#else
  for (int i = 0; i < 8; i++) buf[i] = nd_u8();
#endif
  Stream in = {0}; in.f1 = buf; in.f2 = buf; in.f3 = BUF;
  double d = R_REAL_T(&in, TYPE); uint64_t db = bc_f_i64(d);
  int pos = 0; double e;
#if TYPE == 0
  e = (double)ref_uint(&pos);
#elif TYPE == 1
  e = -(double)ref_uint(&pos);
#elif TYPE == 2
  { uint64_t n = ref_uint(&pos); ASSUME(n != 0); e = uf_div(1.0, (double)n); }
#elif TYPE == 3
  { uint64_t n = ref_uint(&pos); ASSUME(n != 0); e = uf_div(-1.0, (double)n); }
#elif TYPE == 4
  { uint64_t a = ref_uint(&pos), c = ref_uint(&pos); ASSUME(c != 0); e = uf_div((double)a, (double)c); }
#elif TYPE == 5
  { uint64_t a = ref_uint(&pos), c = ref_uint(&pos); ASSUME(c != 0); e = uf_div(-(double)a, (double)c); }
#elif TYPE == 6
  { uint32_t w = (uint32_t)buf[0] | (uint32_t)buf[1] << 8 | (uint32_t)buf[2] << 16 | (uint32_t)buf[3] << 24; ASSUME(((w >> 23) & 0xff) != 0xff); e = (double)bc_i32_f(w); pos = 4; }
#elif TYPE == 7
  { uint64_t w = 0; for (int i = 0; i < 8; i++) w |= (uint64_t)buf[i] << (8 * i); ASSUME(((w >> 52) & 0x7ff) != 0x7ff); e = bc_i64_f(w); pos = 8; }
#endif
  OBS("d", db);
  CHECK(in.f7 == 0, "no error flag");
  CHECK(db == bc_f_i64(e), "decoded real equals the reference value bit for bit");
  CHECK((int)(in.f2 - buf) == pos, "reader consumed exactly the encoding");
#endif
  WITNESS_POINT();
  return 0;
}
