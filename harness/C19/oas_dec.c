/* C19: OASIS integer / delta decoders vs a reference interpreter of the grammar on ARBITRARY bytes
   (non-minimal lengths included).  Value and consumed length must agree when the value fits,
   the Overflow flag must be raised when it does not (never a silent wrap). OP selects the decoder. */
#include "prologue.h"
#include "vfile.h"
#include "zstub.h"
typedef struct S_struct_gdstk__OasisStream Stream;
#define R_UINT _ZN5gdstk27oasis_read_unsigned_integerERNS_11OasisStreamE
#define R_INT _ZN5gdstk18oasis_read_integerERNS_11OasisStreamE
#define R_2D _ZN5gdstk17oasis_read_2deltaERNS_11OasisStreamERlS2_
#define R_3D _ZN5gdstk17oasis_read_3deltaERNS_11OasisStreamERlS2_
#define R_GD _ZN5gdstk17oasis_read_gdeltaERNS_11OasisStreamERlS2_
#ifndef LMAX
#define LMAX 11       /* longest single integer encoding considered */
#endif
#define BUF 32
typedef unsigned __int128 u128;
static uint8_t* buf;
/* reference: one unsigned integer starting at *pos; returns full value (<= 77 bits) */
static u128 ref_uint(int* pos) {
  u128 acc = 0; int i = 0;
  for (;;) { uint8_t b = buf[*pos + i]; acc |= (u128)(b & 0x7f) << (7 * i); i++; if (!(b & 0x80)) break; }
  *pos += i; return acc;
}
static const int DX[8] = {1, 0, -1, 0, 1, -1, -1, 1}, DY[8] = {0, 1, 0, -1, 1, 1, -1, -1};
int main(void) {
  buf = malloc(BUF); memset(buf, 0, BUF);
  int nint = (OP == 4) ? 2 : 1;
  int p = 0;
  for (int k = 0; k < 2; k++) {           /* up to two integers, each of symbolic length 1..LMAX */
    int L = (int)nd_range(1, LMAX);
    for (int i = 0; i < LMAX; i++) if (i < L) { uint8_t b = nd_u8(); buf[p + i] = (i == L - 1) ? (b & 0x7f) : (b | 0x80); }
    p += L;
  }
#if 0 /* was a known finding, fixed in repo 0f88dea */
  /* known finding: encodings that still carry a continuation bit in the byte holding bit 63 are flagged Overflow */
  { int q = 0; for (int k = 0; k < 2; k++) { int i = 0; while (buf[q + i] & 0x80) i++; ASSUME(i + 1 <= 10 - (OP ? (k == 0 || OP != 4 ? 0 : 0) : 0)); q += i + 1; } }
#endif
  Stream in = {0}; in.f1 = buf; in.f2 = buf; in.f3 = BUF;
  uint64_t rx = 0, ry = 0; int pos = 0; int ovf = 0; int64_t ex = 0, ey = 0;
#if OP == 0
  rx = R_UINT(&in);
  { u128 v = ref_uint(&pos); if (v >> 64) ovf = 1; else ex = (int64_t)(uint64_t)v; }
#elif OP == 1
  rx = R_INT(&in);
  { u128 v = ref_uint(&pos); u128 m = v >> 1; if (m >> 63) ovf = 1; else ex = (v & 1) ? -(int64_t)(uint64_t)m : (int64_t)(uint64_t)m; }
#elif OP == 2
  R_2D(&in, &rx, &ry);
  { u128 v = ref_uint(&pos); u128 m = v >> 2; int d = (int)(v & 3); if (m >> 63) ovf = 1; else { ex = DX[d] * (int64_t)(uint64_t)m; ey = DY[d] * (int64_t)(uint64_t)m; } }
#elif OP == 3
  R_3D(&in, &rx, &ry);
  { u128 v = ref_uint(&pos); u128 m = v >> 3; int d = (int)(v & 7); if (m >> 63) ovf = 1; else { ex = DX[d] * (int64_t)(uint64_t)m; ey = DY[d] * (int64_t)(uint64_t)m; } }
#elif OP == 4
  R_GD(&in, &rx, &ry);
  { u128 v = ref_uint(&pos);
    if (!(v & 1)) { u128 m = v >> 4; int d = (int)((v >> 1) & 7); if (m >> 63) ovf = 1; else { ex = DX[d] * (int64_t)(uint64_t)m; ey = DY[d] * (int64_t)(uint64_t)m; } }
    else { u128 m = v >> 2; if (m >> 63) ovf = 1; else ex = (v & 2) ? -(int64_t)(uint64_t)m : (int64_t)(uint64_t)m;
           u128 w = ref_uint(&pos); u128 n = w >> 1; if (n >> 63) ovf = 1; else ey = (w & 1) ? -(int64_t)(uint64_t)n : (int64_t)(uint64_t)n; } }
#endif
  OBS("rx", rx); OBS("ry", ry); OBS("err", in.f7); OBS("ovf", ovf);
  if (ovf) {
    CHECK(in.f7 != 0, "value beyond 64 bits is flagged, not wrapped");
  } else {
    CHECK(in.f7 == 0, "legal encoding of a representable value is accepted without error flag");
    CHECK((int64_t)rx == ex, "decoded x equals reference");
    CHECK((int64_t)ry == ey, "decoded y equals reference");
    CHECK((int)(in.f2 - buf) == pos, "decoder consumed exactly the encoding");
  }
  WITNESS_POINT();
  return 0;
}
