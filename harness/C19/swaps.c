/* C19: byte order helpers: big_endian_swap16/32/64 produce the big-endian image of each word (host is little endian),
   little_endian_swap* leave words unchanged on this host, both are involutions; checksum32 is the wrapping byte sum. */
#include "prologue.h"
#define BE16 _ZN5gdstk17big_endian_swap16EPtm
#define BE32 _ZN5gdstk17big_endian_swap32EPjm
#define BE64 _ZN5gdstk17big_endian_swap64EPmm
#define LE16 _ZN5gdstk20little_endian_swap16EPtm
#define LE32 _ZN5gdstk20little_endian_swap32EPjm
#define LE64 _ZN5gdstk20little_endian_swap64EPmm
#define CK32 _ZN5gdstk10checksum32EjPKhm
#define N 3
int main(void) {
  uint16_t a[N], a0[N]; uint32_t b[N], b0[N]; uint64_t c[N], c0[N];
  uint64_t n = (uint64_t)nd_range(0, N);
  for (int i = 0; i < N; i++) { a0[i] = a[i] = nd_u16(); b0[i] = b[i] = nd_u32(); c0[i] = c[i] = nd_u64(); }
  BE16(a, n); BE32(b, n); BE64(c, n);
  for (int i = 0; i < N; i++) {
    const uint8_t* pa = (const uint8_t*)&a[i]; const uint8_t* pb = (const uint8_t*)&b[i]; const uint8_t* pc = (const uint8_t*)&c[i];
    if ((uint64_t)i < n) {
      CHECK(pa[0] == (a0[i] >> 8) && pa[1] == (a0[i] & 0xff), "16-bit word stored most significant byte first");
      CHECK(pb[0] == (b0[i] >> 24) && pb[1] == ((b0[i] >> 16) & 0xff) && pb[2] == ((b0[i] >> 8) & 0xff) && pb[3] == (b0[i] & 0xff), "32-bit word stored most significant byte first");
      for (int k = 0; k < 8; k++) CHECK(pc[k] == ((c0[i] >> (56 - 8 * k)) & 0xff), "64-bit word stored most significant byte first");
    } else {
      CHECK(a[i] == a0[i] && b[i] == b0[i] && c[i] == c0[i], "words beyond the count untouched");
    }
    OBS("a", a[i]); OBS("b", b[i]); OBS("c", c[i]);
  }
  BE16(a, n); BE32(b, n); BE64(c, n);
  for (int i = 0; i < N; i++) CHECK(a[i] == a0[i] && b[i] == b0[i] && c[i] == c0[i], "swap is an involution");
  LE16(a, n); LE32(b, n); LE64(c, n);
  for (int i = 0; i < N; i++) CHECK(a[i] == a0[i] && b[i] == b0[i] && c[i] == c0[i], "little-endian swap is the identity on a little-endian host");
  uint8_t bytes[4]; uint32_t seed = nd_u32(); uint64_t sum = seed; uint64_t m = (uint64_t)nd_range(0, 4);
  for (int i = 0; i < 4; i++) { bytes[i] = nd_u8(); if ((uint64_t)i < m) sum += bytes[i]; }
  uint32_t ck = CK32(seed, bytes, m); OBS("ck", ck);
  CHECK(ck == (uint32_t)sum, "checksum32 is the byte sum modulo 2^32");
  WITNESS_POINT();
  return 0;
}
