/* glue shared by the harnesses that run the real GDSII reader / writer on the in-memory file model */
typedef struct S_struct_gdstk__Library Lib;
typedef struct S_struct_gdstk__Cell Cell;
typedef struct S_struct_gdstk__Polygon Poly;
typedef struct S_struct_gdstk__Label Label;
typedef struct S_struct_gdstk__Reference Ref;
typedef struct S_struct_gdstk__FlexPath FPath;
typedef struct S_struct_gdstk__FlexPathElement FElem;
typedef struct S_struct_gdstk__Property Prop;
typedef struct S_struct_gdstk__PropertyValue PVal;
#define READ_GDS _ZN5gdstk8read_gdsEPKcddPKNS_3SetImEEPNS_9ErrorCodeE
#define TAG(layer, type) (((uint64_t)(type) << 32) | (uint64_t)(layer))
static Cell* lib_cell(Lib* l, int i) { return ((Cell**)l->f3.f2)[i]; }
#define VXD(v) ((v).f0.f0.f0)
#define VYD(v) ((v).f0.f0.f1)
