/* C20: sorting kernels of include/gdstk/sort.hpp on every array of N elements with any strict weak ordering on a 3-bit key:
   result is ordered and is a permutation of the input (elements carry a unique id so the permutation is observable). */
#include "prologue.h"
#ifndef N
#define N 5
#endif
static uint8_t lt(uint64_t* a, uint64_t* b) { return (uint8_t)(((int64_t)*a >> 8) < ((int64_t)*b >> 8)); }
int main(void) {
  int64_t a[N + 1], in[N + 1];
  for (int i = 0; i < N; i++) { int64_t key = nd_range(-4, 3); in[i] = a[i] = key * 256 + i; }
#if ALG == 0
  w_insertion_sort(a, N, lt);
#elif ALG == 1
  w_heap_sort(a, N, lt);
#elif ALG == 2
  w_sort(a, N, lt);
#elif ALG == 3
  int64_t p = w_partition(a, N, lt);
  OBS("p", p);
  CHECK(p >= 1 && p <= N - 1, "partition point strictly inside (both recursive calls shrink)");
  for (int i = 0; i < N; i++) for (int j = 0; j < N; j++) if (i < p && j >= p) CHECK(!lt(&a[j], &a[i]), "nothing on the right sorts before anything on the left");
#elif ALG == 4
  w_sort_default(a, N);
#endif
  for (int i = 0; i < N; i++) OBS("a", a[i]);
#if ALG != 3
#if ALG == 4
  for (int i = 0; i + 1 < N; i++) CHECK(a[i] <= a[i + 1], "ordered by operator<");
#else
  for (int i = 0; i + 1 < N; i++) CHECK(!lt(&a[i + 1], &a[i]), "ordered: no later element sorts before an earlier one");
#endif
#endif
  for (int i = 0; i < N; i++) { int found = 0; for (int j = 0; j < N; j++) if (a[j] == in[i]) found++; CHECK(found == 1, "permutation: every input element appears exactly once"); }
  WITNESS_POINT();
  return 0;
}
