/* C20: Map<uint64_t> (string-keyed open-addressing table with back-shift deletion): ONE operation from an ARBITRARY valid
   table, compared with an abstract map. hash(const char*) is replaced by an arbitrary function, so collisions, clusters and
   wrap-around are the solver's choice; one inductive step covers operation histories of any length (DESIGN.md 3.3). */
#include "prologue.h"
#ifndef CAP
#define CAP 4
#endif
typedef ARGT_w_map_next_1 Item;
typedef ARGT_w_map_get_0 MapT;
static uint64_t* H;                           /* the arbitrary hash function on 1-character keys (values 0..255) */
/* FNV-1a of a 1-character string exactly as include/gdstk/utils.hpp computes it (char is signed): used natively, and under
   -DREAL_HASH to turn an abstract counterexample (arbitrary hash) into one the real code reproduces */
static uint64_t fnv1(uint8_t c) { uint64_t h = 0xcbf29ce484222325ULL; h ^= (uint64_t)(int64_t)(int8_t)c; h *= 0x100000001b3ULL; return h; }
#if defined(REAL) || defined(REAL_HASH) || !defined(__CPROVER__)
#define HASHOF(c) fnv1(c)
#else
#define HASHOF(c) (H[c] & 0xff)
#endif
#ifndef REAL
uint64_t _ZN5gdstk4hashEPKc(uint8_t* k) { return HASHOF(k[0]); }
/* copy_string contract for the 1-character keys of this harness: fresh NUL-terminated copy (fixed size keeps allocation sizes concrete) */
uint8_t* _ZN5gdstk11copy_stringEPKcPm(uint8_t* s, uint64_t* len) { __CPROVER_assert(s[0] != 0 && s[1] == 0, "harness keys are 1 character"); uint8_t* r = malloc(2); r[0] = s[0]; r[1] = 0; if (len) *len = 2; return r; }
#endif
#define DEFVALID(NAME, LOOK, C) \
static int NAME(Item* it, uint64_t cap, uint64_t count) { \
  if (!it || cap != (C)) return 0; \
  uint64_t n = 0; \
  for (uint64_t i = 0; i < (C); i++) if (it[i].f0) { \
    n++; \
    if (it[i].f0[0] == 0 || it[i].f0[1] != 0) return 0; \
    uint64_t h = HASHOF(it[i].f0[0]) % (C); \
    for (uint64_t d = 0; d < (C); d++) { uint64_t j = (h + d) % (C); if (j == i) break; if (!it[j].f0) return 0; } \
    for (uint64_t j = 0; j < (C); j++) if (j != i && it[j].f0 && it[j].f0[0] == it[i].f0[0]) return 0; \
  } \
  return n == count && count < (C); \
} \
static int LOOK(Item* it, uint64_t cap, uint8_t c, uint64_t* v) { for (uint64_t i = 0; i < (C); i++) if (it[i].f0 && it[i].f0[0] == c) { *v = it[i].f1; return 1; } return 0; }
DEFVALID(valid, lookup, CAP)
DEFVALID(valid2, lookup2, 2 * CAP)
/* Map::set's call to Map::resize is routed here (ir2c callrename): growth is its own step.
   OP 8: contract of resize = "an arbitrary valid table of twice the capacity with the same content" (what OP 7 proves);
   every other OP: growth must not happen under the stated load precondition. */
static int grow_calls;
#ifndef REAL
void map_resize_from_set(MapT* m, uint64_t newcap) {
  grow_calls++;
#if OP == 8
  CHECK(newcap == 2 * CAP, "growth doubles the capacity");
  Item* old = m->f2; uint64_t oc = m->f1;
  Item* ni = malloc(sizeof(Item) * 2 * CAP); uint64_t n = 0;
  for (int i = 0; i < 2 * CAP; i++) { uint8_t c = (uint8_t)nd_range(1, 255); int occ = nd_bool(); uint64_t val = nd_u64();
    if (occ) { uint8_t* k = malloc(2); k[0] = c; k[1] = 0; ni[i].f0 = k; n++; } else ni[i].f0 = 0;
    ni[i].f1 = val; }
  ASSUME(n == oc && valid2(ni, 2 * CAP, n));
  for (int i = 0; i < CAP; i++) if (old[i].f0) { uint64_t t; ASSUME(lookup2(ni, 2 * CAP, old[i].f0[0], &t) && t == old[i].f1); }
  m->f0 = 2 * CAP; m->f2 = ni;
#else
  CHECK(0, "no growth expected below the load threshold");
#endif
}
#endif
int main(void) {
#ifdef __CPROVER__
  uint64_t Hloc[256];                        /* uninitialised: every function uint8 -> uint64 */
  H = Hloc;
#endif
  Item* items = malloc(sizeof(Item) * CAP);
  uint64_t cnt = 0;
  for (int i = 0; i < CAP; i++) { uint8_t c = (uint8_t)nd_range(1, 255); uint64_t val = nd_u64();
#ifdef OCC
    int occ = (OCC >> i) & 1;              /* occupancy pattern fixed by the variant (shape rule), keys / values / hash symbolic */
#else
    int occ = nd_bool();
#endif
    if (occ) { uint8_t* k = malloc(2); k[0] = c; k[1] = 0; items[i].f0 = k; cnt++; } else items[i].f0 = 0;
    items[i].f1 = val; }
  MapT m; m.f0 = CAP; m.f1 = cnt; m.f2 = items;
  ASSUME(valid(items, CAP, cnt));
  uint8_t q[2] = {(uint8_t)nd_range(1, 255), 0};
  uint8_t o[2] = {(uint8_t)nd_range(1, 255), 0}; ASSUME(o[0] != q[0]);
  uint64_t ov = 0, qv = 0; int opres = lookup(items, CAP, o[0], &ov); int qpres = lookup(items, CAP, q[0], &qv);
  uint64_t c0 = cnt, t = 0;
#if OP == 0        /* set without growth */
  ASSUME(c0 * 10 < CAP * 5);
  uint64_t nv = nd_u64();
  w_map_set(&m, q, nv);
  CHECK(m.f0 == CAP && m.f1 == c0 + !qpres, "count grows iff the key is new");
  CHECK(valid(m.f2, m.f0, m.f1), "representation invariant re-established");
  CHECK(lookup(m.f2, m.f0, q[0], &t) && t == nv, "key maps to the new value");
  { int p2 = lookup(m.f2, m.f0, o[0], &t); CHECK(p2 == opres && (!p2 || t == ov), "other keys unaffected"); }
  for (int i = 0; i < CAP; i++) if (m.f2[i].f0 && m.f2[i].f0[0] == q[0]) CHECK(m.f2[i].f0 != q, "the table owns a private copy of the key");
#elif OP == 1      /* get / has_key */
  uint64_t r = w_map_get(&m, q); uint8_t hk = w_map_has_key(&m, q);
  OBS("get", r); OBS("has", hk & 1);
  CHECK(r == (qpres ? qv : 0), "get returns the stored value or the zero value");
  CHECK((hk & 1) == qpres, "has_key");
  CHECK(valid(m.f2, m.f0, m.f1) && m.f1 == c0, "queries do not modify");
#elif OP == 2      /* del with back-shift */
  uint8_t r = w_map_del(&m, q);
  OBS("del", r & 1);
  CHECK((r & 1) == qpres, "del reports whether the key was present");
  CHECK(m.f1 == c0 - qpres, "count");
  CHECK(valid(m.f2, m.f0, m.f1), "representation invariant re-established (no gap left in any probe chain)");
  CHECK(!lookup(m.f2, m.f0, q[0], &t), "key gone");
  { int p2 = lookup(m.f2, m.f0, o[0], &t); CHECK(p2 == opres && (!p2 || t == ov), "other keys keep their values"); }
#elif OP == 3      /* iteration with next(): exactly the occupied slots, each once */
  { uint64_t seen = 0; Item* cur = w_map_next(&m, 0); Item* prev = 0;
    for (int s = 0; s < CAP + 1; s++) { if (!cur) break; CHECK(cur >= items && cur < items + CAP && cur->f0 != 0, "next returns an occupied slot"); CHECK(!prev || cur > prev, "strictly forward"); seen++; prev = cur; cur = w_map_next(&m, cur); }
    CHECK(cur == 0 && seen == c0, "iteration visits count items then stops"); OBS("seen", seen); }
#elif OP == 4      /* to_array */
  { ARGT_w_map_to_array_1 out; out.f0 = 0; out.f1 = 0; out.f2 = 0;
    w_map_to_array(&m, &out);
    CHECK(out.f1 == c0, "array holds count values");
    uint64_t k = 0; for (int i = 0; i < CAP; i++) if (items[i].f0) { CHECK(k < out.f1 && out.f2[k] == items[i].f1, "values in slot order"); k++; } }
#elif OP == 5      /* clear */
  w_map_clear(&m);
  CHECK(m.f0 == 0 && m.f1 == 0 && m.f2 == 0, "cleared");
#elif OP == 6      /* copy_from: deep copy with the same content */
  { MapT d; d.f0 = 0; d.f1 = 0; d.f2 = 0;
    ASSUME(c0 * 10 < CAP * 5 + 10);            /* tables built by set() never exceed the load threshold */
    w_map_copy_from(&d, &m);
    CHECK(d.f0 == CAP && d.f1 == c0 && valid(d.f2, d.f0, d.f1), "copy is a valid table of the same size");
    { int p2 = lookup(d.f2, d.f0, q[0], &t); CHECK(p2 == qpres && (!p2 || t == qv), "same content"); }
    CHECK(d.f2 != items, "own slot array");
    for (int i = 0; i < CAP; i++) for (int j = 0; j < CAP; j++) if (d.f2[i].f0 && items[j].f0) CHECK(d.f2[i].f0 != items[j].f0, "own key strings");
    CHECK(valid(items, CAP, c0), "source untouched"); }
#elif OP == 7      /* resize to twice the capacity */
  w_map_resize(&m, 2 * CAP);
  CHECK(m.f0 == 2 * CAP && m.f1 == c0 && valid2(m.f2, m.f0, m.f1), "valid table at the new capacity");
  { int p2 = lookup2(m.f2, m.f0, q[0], &t); CHECK(p2 == qpres && (!p2 || t == qv), "same content"); }
#elif OP == 8      /* set at the load threshold: grows (resize by contract), then inserts */
  ASSUME(c0 * 10 >= CAP * 5);
  uint64_t nv = nd_u64();
  w_map_set(&m, q, nv);
#ifndef REAL
  CHECK(grow_calls == 1, "table grows exactly once at the threshold");
#endif
  CHECK(m.f0 == 2 * CAP && m.f1 == c0 + !qpres, "count grows iff the key is new");
  CHECK(valid2(m.f2, m.f0, m.f1), "representation invariant at the new capacity");
  CHECK(lookup2(m.f2, m.f0, q[0], &t) && t == nv, "key maps to the new value");
  { int p2 = lookup2(m.f2, m.f0, o[0], &t); CHECK(p2 == opres && (!p2 || t == ov), "other keys unaffected"); }
#endif
  WITNESS_POINT();
  return 0;
}
