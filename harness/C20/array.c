/* C20: Array<int64_t> primitives vs a C-array model: one call from an arbitrary array of CNT elements with capacity CAPA. */
#include "prologue.h"
#ifndef CNT
#define CNT 3
#endif
#ifndef CAPA
#define CAPA 4
#endif
typedef ARGT_w_arr_append_0 Arr;
int main(void) {
  int64_t model[CNT + 4]; Arr a; a.f0 = CAPA; a.f1 = CNT; a.f2 = CAPA ? malloc(sizeof(int64_t) * CAPA) : 0;
  for (int i = 0; i < CNT; i++) { model[i] = nd_range(-2, 2); a.f2[i] = (uint64_t)model[i]; }
  int64_t v = nd_range(-2, 2); uint64_t idx = (uint64_t)nd_range(0, CNT + 1);
  int fi = -1; for (int i = CNT - 1; i >= 0; i--) if (model[i] == v) fi = i;
#if OP == 0       /* append (grows when full) */
  w_arr_append(&a, v);
  CHECK(a.f1 == CNT + 1 && a.f0 >= a.f1, "count + 1 within capacity");
  for (int i = 0; i < CNT; i++) CHECK((int64_t)a.f2[i] == model[i], "prefix kept"); CHECK((int64_t)a.f2[CNT] == v, "appended last");
#elif OP == 1     /* insert at idx (append when idx >= count) */
  w_arr_insert(&a, idx, v);
  CHECK(a.f1 == CNT + 1 && a.f0 >= a.f1, "count + 1 within capacity");
  { uint64_t at = idx >= CNT ? CNT : idx; for (uint64_t i = 0; i < CNT + 1; i++) CHECK((int64_t)a.f2[i] == (i < at ? model[i] : i == at ? v : model[i - 1]), "inserted at the index, tail shifted"); }
#elif OP == 2     /* remove(idx): order kept */
  ASSUME(idx < CNT); w_arr_remove(&a, idx);
  CHECK(a.f1 == CNT - 1, "count - 1"); for (uint64_t i = 0; i + 1 < CNT; i++) CHECK((int64_t)a.f2[i] == (i < idx ? model[i] : model[i + 1]), "tail shifted down, order kept");
#elif OP == 3     /* remove_unordered(idx): last element fills the hole */
  ASSUME(idx < CNT); w_arr_remove_unordered(&a, idx);
  CHECK(a.f1 == CNT - 1, "count - 1"); for (uint64_t i = 0; i + 1 < CNT; i++) CHECK((int64_t)a.f2[i] == (i == idx ? model[CNT - 1] : model[i]), "last element moved into the hole");
#elif OP == 4     /* index / contains / remove_item */
  { uint64_t k = w_arr_index(&a, (uint64_t)v); uint8_t c = w_arr_contains(&a, (uint64_t)v); CHECK(k == (uint64_t)(fi < 0 ? CNT : fi) && (c & 1) == (fi >= 0), "first index of the value or count");
    uint8_t r = w_arr_remove_item(&a, (uint64_t)v); CHECK((r & 1) == (fi >= 0) && a.f1 == (uint64_t)(CNT - (fi >= 0)), "remove_item removes the first occurrence");
    for (int i = 0; i + (fi >= 0) < CNT; i++) CHECK((int64_t)a.f2[i] == ((fi < 0 || i < fi) ? model[i] : model[i + 1]), "order kept"); }
#elif OP == 5     /* extend / copy_from / ensure_slots */
  { Arr b; b.f0 = 0; b.f1 = 0; b.f2 = 0; w_arr_copy_from(&b, &a);
    CHECK(b.f1 == CNT && (CNT == 0 ? b.f2 == 0 : b.f2 != a.f2), "copy has its own storage"); for (int i = 0; i < CNT; i++) CHECK(b.f2[i] == a.f2[i], "same content");
    w_arr_extend(&a, &b); CHECK(a.f1 == 2 * CNT && a.f0 >= a.f1, "extended"); for (int i = 0; i < 2 * CNT; i++) CHECK((int64_t)a.f2[i] == model[i % (CNT ? CNT : 1)], "content doubled");
    w_arr_ensure_slots(&a, 3); CHECK(a.f0 >= a.f1 + 3 && a.f1 == 2 * CNT, "free slots guaranteed, content kept"); for (int i = 0; i < 2 * CNT; i++) CHECK((int64_t)a.f2[i] == model[i % (CNT ? CNT : 1)], "content kept");
    w_arr_clear(&b); CHECK(b.f0 == 0 && b.f1 == 0 && b.f2 == 0, "cleared"); }
#endif
  WITNESS_POINT();
  return 0;
}
