/* C20: property lists behave as an ordered multimap (name -> value list): one call of remove_property / get_property /
   set_property / properties_copy+clear on an arbitrary list of LEN nodes, compared with an array model.
   Real code: src/property.cpp through one-line extern "C" wrappers (overload resolution only). */
#include "prologue.h"
#ifndef LEN
#define LEN 2
#endif
typedef struct S_struct_gdstk__Property Prop;            /* {char* name; PropertyValue* value; Property* next} */
typedef struct S_struct_gdstk__PropertyValue PVal;       /* {u32 type; union(16 bytes); PropertyValue* next} */
static uint64_t* pv_u64(PVal* v) { return (uint64_t*)((uint8_t*)v + 8); }
int main(void) {
  uint8_t names[LEN + 1]; uint64_t vals[LEN + 1];
  Prop* head = 0; Prop* nodes[LEN + 1];
  for (int i = LEN - 1; i >= 0; i--) {
    names[i] = (uint8_t)nd_range('a', 'c'); vals[i] = nd_u64();
    Prop* p = malloc(sizeof(Prop)); uint8_t* nm = malloc(2); nm[0] = names[i]; nm[1] = 0;
    PVal* v = malloc(sizeof(PVal)); memset(v, 0, sizeof(PVal)); v->f0 = 0 /* UnsignedInteger */; *pv_u64(v) = vals[i]; v->f2 = 0;
    p->f0 = nm; p->f1 = v; p->f2 = head; head = p; nodes[i] = p;
  }
  uint8_t q[2] = {(uint8_t)nd_range('a', 'c'), 0};
  int first = -1, nmatch = 0; for (int i = 0; i < LEN; i++) if (names[i] == q[0]) { if (first < 0) first = i; nmatch++; }
#if OP == 0       /* remove_property(name, all) */
  int all = nd_bool();
  uint64_t r = w_prop_remove(&head, q, all);
  OBS("removed", r);
  CHECK(r == (uint64_t)(all ? nmatch : (nmatch > 0)), "number of removed properties");
  { Prop* p = head; for (int i = 0; i < LEN; i++) { int gone = (names[i] == q[0]) && (all || i == first); if (gone) continue;
      CHECK(p == nodes[i], "surviving properties keep their order and identity"); if (p) p = p->f2; }
    CHECK(p == 0, "nothing else in the list"); }
#elif OP == 1     /* get_property */
  { PVal* v = w_prop_get(head, q); CHECK(first < 0 ? v == 0 : v == nodes[first]->f1, "value list of the first property with that name, or NULL"); OBS("found", v != 0); }
#elif OP == 2     /* set_property (unsigned integer), create_new or add to existing */
  { int create_new = nd_bool(); uint64_t nv = nd_u64();
    w_prop_set_u64(&head, q, nv, create_new);
    if (!create_new && first >= 0) {
      CHECK(head == (LEN ? nodes[0] : 0), "no property added");
      PVal* v = nodes[first]->f1; CHECK(v && v->f0 == 0 && *pv_u64(v) == nv, "new value is first in the value list");
      CHECK(v && v->f2 && *pv_u64(v->f2) == vals[first] && v->f2->f2 == 0, "previous values follow");
    } else {
      CHECK(head && head->f0 && head->f0[0] == q[0] && head->f0[1] == 0 && head->f0 != q, "new property first, with a private copy of the name");
      CHECK(head && head->f1 && head->f1->f0 == 0 && *pv_u64(head->f1) == nv && head->f1->f2 == 0, "single value");
      CHECK(head && head->f2 == (LEN ? nodes[0] : 0), "rest of the list untouched");
    }
    for (int i = 0; i < LEN; i++) if (!(i == first && !create_new)) CHECK(nodes[i]->f1 && *pv_u64(nodes[i]->f1) == vals[i], "other properties unchanged"); }
#elif OP == 3     /* properties_copy then properties_clear of the copy */
  { Prop* c = w_prop_copy(head); Prop* p = c;
    for (int i = 0; i < LEN; i++) { CHECK(p && p != nodes[i] && p->f0 != nodes[i]->f0 && p->f1 != nodes[i]->f1, "deep copy: distinct storage");
      if (p) { CHECK(p->f0[0] == names[i] && p->f0[1] == 0 && p->f1->f0 == 0 && *pv_u64(p->f1) == vals[i] && p->f1->f2 == 0, "same content, same order"); p = p->f2; } }
    CHECK(p == 0, "same length");
    w_prop_clear(&c); CHECK(c == 0, "clear empties the list");
    for (int i = 0; i < LEN; i++) CHECK(nodes[i]->f0[0] == names[i] && *pv_u64(nodes[i]->f1) == vals[i], "source untouched by clearing the copy"); }
#endif
  WITNESS_POINT();
  return 0;
}
