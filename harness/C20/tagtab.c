/* C20: Set<Tag> (KIND 0), TagMap (KIND 1) and StyleMap (KIND 2): one operation from an arbitrary valid table vs the abstract
   set / map. hash<Tag> is an arbitrary function (values 0..255 on the 2-bit tag universe used here: tags are drawn from
   8 distinct values with common symbolic high bits so that equality patterns are free and the hash stub is a table). */
#include "prologue.h"
#ifndef CAP
#define CAP 4
#endif
#define NT 8
static uint64_t TAGS[NT];                /* universe: NT distinct tags sharing 61 symbolic high bits, distinguished by the low 3 bits */
static uint64_t HV[NT];                  /* arbitrary hash value per tag */
#ifndef REAL
uint64_t _ZN5gdstk4hashImEEmT_(uint64_t t) { __CPROVER_assert((t >> 3) == (TAGS[0] >> 3), "hash of a tag outside the universe"); return HV[t & 7]; }
static int grow_calls;
void tab_resize_from_add(void* m, uint64_t newcap) { grow_calls++; CHECK(0, "no growth expected below the load threshold"); }
#endif
static uint64_t hv(uint64_t t) { return HV[t & 7]; }
#if KIND == 0
typedef ARGT_w_set_next_1 Item;           /* {Tag value; bool valid} */
typedef ARGT_w_set_add_0 Tab;
#define OCC(it) ((it).f1 & 1)
#define KEY(it) ((it).f0)
#elif KIND == 1
typedef ARGT_w_tagmap_next_1 Item;        /* {Tag key; Tag value}; empty iff key == value */
typedef ARGT_w_tagmap_set_0 Tab;
#define OCC(it) ((it).f0 != (it).f1)
#define KEY(it) ((it).f0)
#elif KIND == 2
typedef ARGT_w_style_next_1 Item;         /* {Tag tag; char* value}; empty iff value == NULL */
typedef ARGT_w_style_set_0 Tab;
#define OCC(it) ((it).f1 != 0)
#define KEY(it) ((it).f0)
uint8_t* _ZN5gdstk11copy_stringEPKcPm(uint8_t* s, uint64_t* len) { __CPROVER_assert(s[0] != 0 && s[1] == 0, "harness strings are 1 character"); uint8_t* r = malloc(2); r[0] = s[0]; r[1] = 0; if (len) *len = 2; return r; }
#endif
static int valid(Item* it, uint64_t cap, uint64_t count) {
  if (!it || cap != CAP) return 0;
  uint64_t n = 0;
  for (uint64_t i = 0; i < CAP; i++) if (OCC(it[i])) {
    n++;
    uint64_t h = hv(KEY(it[i])) % CAP;
    for (uint64_t d = 0; d < CAP; d++) { uint64_t j = (h + d) % CAP; if (j == i) break; if (!OCC(it[j])) return 0; }
    for (uint64_t j = 0; j < CAP; j++) if (j != i && OCC(it[j]) && KEY(it[j]) == KEY(it[i])) return 0;
#if KIND == 2
    if (it[i].f1[0] == 0 || it[i].f1[1] != 0) return 0;
#endif
  }
  return n == count && count < CAP;
}
static int find(Item* it, uint64_t k) { for (int i = 0; i < CAP; i++) if (OCC(it[i]) && KEY(it[i]) == k) return i; return -1; }
int main(void) {
  { uint64_t hi = nd_u64() << 3; for (int i = 0; i < NT; i++) { TAGS[i] = hi | (uint64_t)i; HV[i] = (uint64_t)nd_range(0, 255); } }
  Item* items = malloc(sizeof(Item) * CAP); uint64_t cnt = 0;
  for (int i = 0; i < CAP; i++) {
    int occ = nd_bool(); uint64_t k = TAGS[nd_range(0, NT - 1)];
#if KIND == 0
    items[i].f0 = k; items[i].f1 = occ; if (!occ) items[i].f0 = nd_u64();        /* stale value in an invalid slot */
#elif KIND == 1
    { uint64_t v = TAGS[nd_range(0, NT - 1)]; if (occ) { ASSUME(v != k); items[i].f0 = k; items[i].f1 = v; } else { items[i].f0 = v; items[i].f1 = v; } }   /* empty slots may hold any stale key == value */
#elif KIND == 2
    items[i].f0 = k; if (occ) { uint8_t* sv = malloc(2); sv[0] = (uint8_t)nd_range(1, 255); sv[1] = 0; items[i].f1 = sv; } else items[i].f1 = 0;
#endif
    cnt += occ; }
  Tab m; m.f0 = CAP; m.f1 = cnt; m.f2 = items;
  ASSUME(valid(items, CAP, cnt));
  uint64_t q = TAGS[nd_range(0, NT - 1)], o = TAGS[nd_range(0, NT - 1)]; ASSUME(o != q);
  int qi = find(items, q), oi = find(items, o); uint64_t c0 = cnt;
#if KIND == 1
  uint64_t qv = qi >= 0 ? items[qi].f1 : q, ov = oi >= 0 ? items[oi].f1 : o;
#elif KIND == 2
  uint8_t qv = qi >= 0 ? items[qi].f1[0] : 0, ov = oi >= 0 ? items[oi].f1[0] : 0;
#endif
#if OP == 0        /* insert / overwrite below the load threshold */
  ASSUME(c0 * 10 < CAP * 5);
#if KIND == 0
  w_set_add(&m, q);
#elif KIND == 1
  uint64_t nv = TAGS[nd_range(0, NT - 1)]; ASSUME(nv != q);          /* set(k, k) means delete: covered by OP 2 */
  w_tagmap_set(&m, q, nv);
#elif KIND == 2
  uint8_t ns[2] = {(uint8_t)nd_range(1, 255), 0};
  w_style_set(&m, q, ns);
#endif
  CHECK(m.f0 == CAP && m.f1 == c0 + (qi < 0), "count grows iff the key is new");
  CHECK(valid(m.f2, m.f0, m.f1), "representation invariant re-established");
  { int k = find(m.f2, q); CHECK(k >= 0, "key present");
#if KIND == 1
    CHECK(k < 0 || m.f2[k].f1 == nv, "maps to the new value");
#elif KIND == 2
    CHECK(k < 0 || (m.f2[k].f1[0] == ns[0] && m.f2[k].f1 != ns), "maps to a private copy of the new string");
#endif
  }
  { int k = find(m.f2, o); CHECK((k >= 0) == (oi >= 0), "other keys keep their presence");
#if KIND == 1
    CHECK(k < 0 || m.f2[k].f1 == ov, "other keys keep their value");
#elif KIND == 2
    CHECK(k < 0 || m.f2[k].f1[0] == ov, "other keys keep their value");
#endif
  }
#elif OP == 1      /* queries */
#if KIND == 0
  { uint8_t r = w_set_has(&m, q); OBS("has", r & 1); CHECK((r & 1) == (qi >= 0), "has_value"); }
#elif KIND == 1
  { uint64_t r = w_tagmap_get(&m, q); uint8_t h = w_tagmap_has_key(&m, q); CHECK(r == qv, "get returns the mapped tag, or the key itself when unmapped"); CHECK((h & 1) == (qi >= 0), "has_key"); }
#elif KIND == 2
  { uint8_t* r = w_style_get(&m, q); CHECK((r != 0) == (qi >= 0) && (!r || r[0] == qv), "get returns the stored string or NULL"); }
#endif
  CHECK(valid(m.f2, m.f0, m.f1) && m.f1 == c0, "queries do not modify");
#elif OP == 2      /* delete with back-shift */
  { uint8_t r;
#if KIND == 0
    r = w_set_del(&m, q);
#elif KIND == 1
    r = nd_bool() ? w_tagmap_del(&m, q) : (w_tagmap_set(&m, q, q), (uint8_t)(qi >= 0));     /* set(k, k) is defined as delete */
#elif KIND == 2
    r = w_style_del(&m, q);
#endif
    CHECK((r & 1) == (qi >= 0), "del reports presence"); }
  CHECK(m.f1 == c0 - (qi >= 0), "count");
  CHECK(valid(m.f2, m.f0, m.f1), "representation invariant re-established");
  CHECK(find(m.f2, q) < 0, "key gone");
  { int k = find(m.f2, o); CHECK((k >= 0) == (oi >= 0), "other keys keep their presence");
#if KIND == 1
    CHECK(k < 0 || m.f2[k].f1 == ov, "other keys keep their value");
#elif KIND == 2
    CHECK(k < 0 || m.f2[k].f1[0] == ov, "other keys keep their value");
#endif
  }
#elif OP == 3      /* iteration */
  { uint64_t seen = 0; Item* cur; Item* prev = 0;
#if KIND == 0
#define NEXT(c) w_set_next(&m, c)
#elif KIND == 1
#define NEXT(c) w_tagmap_next(&m, c)
#else
#define NEXT(c) w_style_next(&m, c)
#endif
    cur = NEXT(0);
    for (int s = 0; s < CAP + 1; s++) { if (!cur) break; CHECK(cur >= items && cur < items + CAP && OCC(*cur), "next returns an occupied slot"); CHECK(!prev || cur > prev, "strictly forward"); seen++; prev = cur; cur = NEXT(cur); }
    CHECK(cur == 0 && seen == c0, "iteration visits count items then stops"); }
#endif
  WITNESS_POINT();
  return 0;
}
