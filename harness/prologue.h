/* included first by every harness: conventions + the generated unit (or its declarations in REAL mode) */
#include "harness.h"
#ifdef MODEL_IE
#ifndef REAL
#include "ir2c_ie_rt.h"
#endif
#endif
#ifdef REAL
#include "ir2c_rt.h"
#include "unit_decl.h"
#define BYVAL(x) (x)
#else
#include "unit.c"
#define BYVAL(x) (&(x))
#endif
