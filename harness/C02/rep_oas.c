/* C02 / C04 (repetitions): MODE 0 - the real oasis_write_repetition against a reference decoder of the specification's repetition
   types 1..11: the field it emits denotes exactly the offsets of the repetition (as a multiset; the first instance at (0,0)).
   MODE 1 - the real oasis_read_repetition on a specification-encoded field of type RTYPE: the Repetition it builds enumerates
   (through the real Repetition::get_offsets, whose agreement with the documented vectors is C11) exactly the offsets the
   specification defines. Codecs as typed tokens in the solver model, real bytes on replay. Integer-exact arithmetic model (the union inside Repetition
   holds either doubles or the list pointer; CBMC tracks a pointer through an integer-typed slot but not through a double-typed one). */
#include "harness.h"
#include "prologue.h"
#define VF_CAP 16
#include "vfile.h"
#include "zstub.h"
#include "oastok.h"
#include "oas_ref_tok.h"
#define REP_MAXOFF 10
#include "C11/rep.h"
typedef struct S_struct_gdstk__OasisStream Stream;
#if MODE == 1
typedef ARGT__ZNK5gdstk10Repetition11get_offsetsERNS_5ArrayINS_4Vec2EEE_1 VArr;
#endif
#ifdef REAL
#define BYVAL(x) (x)       /* the C++ ABI passes the struct by value (in memory); the generated C takes the address of the caller's copy */
#else
#define BYVAL(x) (&(x))
#endif
#define W_REP _ZN5gdstk22oasis_write_repetitionERNS_11OasisStreamENS_10RepetitionEd
#define R_REP _ZN5gdstk21oasis_read_repetitionERNS_11OasisStreamEdRNS_10RepetitionE
#define GET_OFF _ZNK5gdstk10Repetition11get_offsetsERNS_5ArrayINS_4Vec2EEE
#define BUF 96
#ifndef RR
#define RR 5
#endif
static int same_multiset(int n, const int64_t* ax, const int64_t* ay, const int64_t* bx, const int64_t* by) {
  for (int i = 0; i < REP_MAXOFF; i++) if (i < n) { int ca = 0, cb = 0; for (int j = 0; j < REP_MAXOFF; j++) if (j < n) { if (ax[j] == ax[i] && ay[j] == ay[i]) ca++; if (bx[j] == ax[i] && by[j] == ay[i]) cb++; } if (ca != cb) return 0; }
  return 1; }
int main(void) {
  uint8_t* buf = malloc(BUF); memset(buf, 0xA5, BUF);
  int64_t gx[REP_MAXOFF], gy[REP_MAXOFF]; int n = 0;
#if MODE == 0
  Rep rep; rep_build(&rep, KIND, A, B, RR);
  Stream out = {0}; out.f1 = buf; out.f2 = buf; out.f3 = BUF;
  W_REP(&out, BYVAL(rep), NUM_OF_INT(1));
#ifdef REAL
  rp = buf; rend = out.f2;
#endif
  n = ref_repetition(REP_MAXOFF, gx, gy);
  OBS("n", n);
  CHECK(!bad && nx_done(), "well-formed repetition field: a type of the specification, field kinds as it prescribes, nothing left over");
  CHECK(n == rep_n, "the field denotes as many instances as the repetition has");
  CHECK(n != rep_n || same_multiset(n, gx, gy, rep_ex, rep_ey), "the field denotes exactly the offsets of the repetition");
#else
  /* specification-encoded field of type RTYPE with symbolic values; expected offsets enumerated alongside */
  int64_t ex[REP_MAXOFF], ey[REP_MAXOFF]; int en = 0;
#ifdef REAL
  vf_files[0].len = 0;
#define PUT(k, a, b) tok_put(k, (uint64_t)(a), (uint64_t)(b))
#else
#define PUT(k, a, b) tok_put(k, (uint64_t)(a), (uint64_t)(b))
#endif
  PUT(K_BYTE, RTYPE, 0);
  int64_t sx = nd_range(0, RR), sy = nd_range(0, RR), ax = nd_range(-RR, RR), ay = nd_range(-RR, RR), bx = nd_range(-RR, RR), by = nd_range(-RR, RR), grid = nd_range(0, 3);
#if RTYPE == 1
  PUT(K_UINT, A - 2, 0); PUT(K_UINT, B - 2, 0); PUT(K_UINT, sx, 0); PUT(K_UINT, sy, 0); for (int i = 0; i < A; i++) for (int j = 0; j < B; j++) { ex[en] = i * sx; ey[en] = j * sy; en++; }
#elif RTYPE == 2
  PUT(K_UINT, A - 2, 0); PUT(K_UINT, sx, 0); for (int i = 0; i < A; i++) { ex[en] = i * sx; ey[en] = 0; en++; }
#elif RTYPE == 3
  PUT(K_UINT, A - 2, 0); PUT(K_UINT, sy, 0); for (int i = 0; i < A; i++) { ex[en] = 0; ey[en] = i * sy; en++; }
#elif RTYPE >= 4 && RTYPE <= 7
  PUT(K_UINT, A - 2, 0); if (RTYPE == 5 || RTYPE == 7) PUT(K_UINT, grid, 0);
  { int64_t pos = 0, g = (RTYPE == 5 || RTYPE == 7) ? grid : 1; ex[0] = ey[0] = 0; en = 1; for (int i = 1; i < A; i++) { int64_t d = nd_range(0, RR); PUT(K_UINT, d, 0); pos += g * d; ex[en] = RTYPE <= 5 ? pos : 0; ey[en] = RTYPE <= 5 ? 0 : pos; en++; } }
#elif RTYPE == 8
  PUT(K_UINT, A - 2, 0); PUT(K_UINT, B - 2, 0); PUT(K_GD, ax, ay); PUT(K_GD, bx, by); for (int i = 0; i < A; i++) for (int j = 0; j < B; j++) { ex[en] = i * ax + j * bx; ey[en] = i * ay + j * by; en++; }
#elif RTYPE == 9
  PUT(K_UINT, A - 2, 0); PUT(K_GD, ax, ay); for (int i = 0; i < A; i++) { ex[en] = i * ax; ey[en] = i * ay; en++; }
#else
  PUT(K_UINT, A - 2, 0); if (RTYPE == 11) PUT(K_UINT, grid, 0);
  { int64_t px = 0, py = 0, g = RTYPE == 11 ? grid : 1; ex[0] = ey[0] = 0; en = 1; for (int i = 1; i < A; i++) { int64_t dx = nd_range(-RR, RR), dy = nd_range(-RR, RR); PUT(K_GD, dx, dy); px += g * dx; py += g * dy; ex[en] = px; ey[en] = py; en++; } }
#endif
  Stream in = {0};
#ifdef REAL
  for (uint64_t i = 0; i < vf_files[0].len; i++) buf[i] = vf_files[0].data[i];
  in.f1 = buf; in.f2 = buf; in.f3 = vf_files[0].len;
#else
  in.f1 = buf; in.f2 = buf; in.f3 = BUF;
#endif
  Rep rep; { Rep z = {0}; rep = z; }
  R_REP(&in, NUM_OF_INT(1), &rep);
  CHECK(in.f7 == 0, "no error flag");
#ifndef REAL
  CHECK(tok_k == tok_n && !tok_kind_error, "the reader consumed the field, kind by kind");
#endif
  VArr off = {0}; GET_OFF(&rep, &off); NUM* o = (NUM*)off.f2;
  n = (int)off.f1; OBS("n", n);
  CHECK(off.f1 == (uint64_t)en, "as many instances as the field defines");
  int exact = 1; for (int i = 0; i < REP_MAXOFF; i++) if ((uint64_t)i < off.f1) { gx[i] = NUM_TO_I64(o[2 * i]); gy[i] = NUM_TO_I64(o[2 * i + 1]); if (!NUM_EQ(NUM_OF_INT(gx[i]), o[2 * i]) || !NUM_EQ(NUM_OF_INT(gy[i]), o[2 * i + 1])) exact = 0; }
  CHECK(exact && (off.f1 != (uint64_t)en || same_multiset(en, gx, gy, ex, ey)), "the repetition enumerates exactly the offsets the field defines");
#endif
  WITNESS_POINT();
  return 0;
}
