/* C02 (signature sentence, stream level): whatever mix of single-byte and block writes produces the bytes of the file, the running
   signature kept by the OASIS output stream is the signature of exactly those bytes, in file order: the CRC32 when a CRC32 was
   requested (also when both kinds were requested: the END record then announces CRC32), otherwise the byte sum when a checksum
   was requested; and the bytes reach the file unchanged. zlib's crc32 is an order-sensitive rolling function in the solver model
   (engine/env/zstub.h) and the real one on replay. */
#include "harness.h"
#include "prologue.h"
#define VF_CAP 64
#include "vfile.h"
#include "zstub.h"
typedef struct S_struct_gdstk__OasisStream Stream;
#define PUTC _ZN5gdstk10oasis_putcEiRNS_11OasisStreamE
#define WRITE _ZN5gdstk11oasis_writeEPKvmmRNS_11OasisStreamE
#define W_UINT _ZN5gdstk28oasis_write_unsigned_integerERNS_11OasisStreamEm
#define W_INT _ZN5gdstk19oasis_write_integerERNS_11OasisStreamEl
#define W_GD _ZN5gdstk18oasis_write_gdeltaERNS_11OasisStreamEll
#ifdef REAL
unsigned long crc32(unsigned long, const unsigned char*, unsigned);
#define CRC(h, p, n) ((uint32_t)crc32((unsigned long)(h), (const unsigned char*)(p), (unsigned)(n)))
#else
#define CRC(h, p, n) ((uint32_t)crc32((uint64_t)(h), (uint8_t*)(p), (uint32_t)(n)))
#endif
int main(void) {
  uint8_t fname[2] = {'f', 0}, mode[3] = {'w', 'b', 0};
  Stream out = {0}; out.f0 = (void*)VFN(fopen)(fname, mode); out.f5 = WANT_CRC; out.f6 = WANT_SUM;
  uint32_t init = WANT_CRC ? CRC(0, (uint8_t*)0, 0) : 0; out.f4 = init;
  uint8_t b0 = nd_u8(), blk[3] = {nd_u8(), nd_u8(), nd_u8()}, b4 = nd_u8(); uint64_t u = nd_u64(); ASSUME(u < (1ULL << 21)); int64_t s = nd_range(-(1 << 13), 1 << 13);
  PUTC(b0, &out); WRITE(blk, 1, 3, &out); PUTC(b4, &out); W_UINT(&out, u); WRITE(blk, 1, 2, &out); W_INT(&out, (uint64_t)s); PUTC(b0, &out);
  uint64_t n = vf_files[0].len; OBS("len", n);
  CHECK(n >= 10 && n <= 14, "bytes written: 8 given bytes, 1..3 for the unsigned, 1..3 for the signed integer");
  CHECK(vf_files[0].data[0] == b0 && vf_files[0].data[1] == blk[0] && vf_files[0].data[3] == blk[2] && vf_files[0].data[4] == b4 && vf_files[0].data[n - 1] == b0, "bytes reach the file unchanged, in order");
  uint32_t want = init;
  if (WANT_CRC) { for (uint64_t i = 0; i < 14; i++) if (i < n) want = CRC(want, &vf_files[0].data[i], 1); }
  else if (WANT_SUM) { for (uint64_t i = 0; i < 14; i++) if (i < n) want += vf_files[0].data[i]; }
  if (!WANT_CRC) OBS("sig", out.f4);      /* the CRC itself differs between the rolling model and zlib; its agreement with the bytes is the CHECK */
  CHECK(out.f4 == want, "running signature == signature of the bytes in the file (CRC32 if requested, else byte sum if requested, else untouched)");
  WITNESS_POINT();
  return 0;
}
