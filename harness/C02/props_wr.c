/* C02 (property sentence, writer half): properties_to_oas writes, for every property of a list, one PROPERTY record that a
   reference decoder of the record definition maps back to the same name and the same values in the same order: name by PROPNAME
   reference number (the number the writer's name table gives that name - one number per distinct name), unsigned and signed
   integers and reals by value, strings by PROPSTRING reference (a-, b- or n-string class by their bytes) to a table entry with
   exactly those bytes. The reader half (PROPERTY records, name and string tables resolved at END) is C04. */
#include "harness.h"
uint64_t my_strlen1(uint8_t* s);
#include "prologue.h"
#define VF_CAP 16
#include "vfile.h"
#include "zstub.h"
#define OASTOK_STRINGS_AND_REALS
#include "oastok.h"
#include "oas_ref_tok.h"
typedef struct S_struct_gdstk__OasisStream Stream;
typedef struct S_struct_gdstk__Property Prop;
typedef struct S_struct_gdstk__PropertyValue PVal;
typedef ARGT__ZN5gdstk17properties_to_oasEPKNS_8PropertyERNS_11OasisStreamERNS_10OasisStateE_2 State;
#define TO_OAS _ZN5gdstk17properties_to_oasEPKNS_8PropertyERNS_11OasisStreamERNS_10OasisStateE
#define PV_U64(v) (*(uint64_t*)&(v)->f1)
#define PV_BYTES(v) (*(uint8_t**)((uint8_t*)&(v)->f1 + 8))
#define BUF 128
#ifndef REAL
static uint64_t* Hh;
uint64_t _ZN5gdstk4hashEPKc(uint8_t* k) { return Hh[k[0]] & 0xff; }      /* hash of a name: an arbitrary function */
uint64_t my_strlen1(uint8_t* s) { __CPROVER_assert(s[0] != 0 && s[1] == 0, "1-character names"); return 1; }
#endif
typedef struct { uint8_t* key; uint64_t value; } NItem;
static int cls(const uint8_t* b, int n) { int space = 0; for (int i = 0; i < n; i++) { if (b[i] < 0x20 || b[i] > 0x7E) return 14; if (b[i] == 0x20) space = 1; } return space ? 13 : 15; }
int main(void) {
#ifdef __CPROVER__
  uint64_t Hloc[256]; Hh = Hloc;
#endif
  /* property 0: [unsigned u, signed i, real r, string s0 (2 bytes)]; property 1 (NP == 2): [string s1 (2 bytes), real r1]; names 'p' and (SAME ? 'p' : 'q') */
  uint64_t u = nd_u64(); int64_t si = (int64_t)nd_u64(); ASSUME(si != INT64_MIN); uint64_t rbits = nd_u64(), r1bits = nd_u64();
  uint8_t s0[2] = {nd_u8(), nd_u8()}, s1[2] = {nd_u8(), nd_u8()};      /* equal lengths: the writer's string table may merge only byte-identical values, whatever the bytes (NULs included) */
  uint8_t n0[2] = {'p', 0}, n1[2] = {SAME ? 'p' : 'q', 0};
  PVal v[6]; memset(v, 0, sizeof(v));
  v[0].f0 = 0; PV_U64(&v[0]) = u; v[0].f2 = &v[1];
  v[1].f0 = 1; PV_U64(&v[1]) = (uint64_t)si; v[1].f2 = &v[2];
  v[2].f0 = 2; PV_U64(&v[2]) = rbits; v[2].f2 = &v[3];
  v[3].f0 = 3; PV_U64(&v[3]) = 2; PV_BYTES(&v[3]) = s0; v[3].f2 = 0;
  v[4].f0 = 3; PV_U64(&v[4]) = 2; PV_BYTES(&v[4]) = s1; v[4].f2 = &v[5];
  v[5].f0 = 2; PV_U64(&v[5]) = r1bits; v[5].f2 = 0;
  Prop p[2]; memset(p, 0, sizeof(p)); p[0].f0 = n0; p[0].f1 = &v[0]; p[0].f2 = NP == 2 ? &p[1] : 0; p[1].f0 = n1; p[1].f1 = &v[4]; p[1].f2 = 0;
  uint8_t* buf = malloc(BUF); memset(buf, 0xA5, BUF);
  Stream out = {0}; out.f1 = buf; out.f2 = buf; out.f3 = BUF;
  State st; memset(&st, 0, sizeof(st)); st.f0 = 1.0;
  uint32_t rc = TO_OAS(&p[0], &out, &st);
  CHECK(rc == 0, "no error");
#ifdef REAL
  rp = buf; rend = out.f2;
#endif
  uint64_t idx[2] = {0, 0};
  for (int k = 0; k < 2; k++) if (k < NP) {
    uint8_t rec = nx_byte(), info = nx_byte(); int nv = k == 0 ? 4 : 2;
    CHECK(rec == 28, "a PROPERTY record per property");
    CHECK((info & 0x0F) == 0x06 && (info >> 4) == nv, "name explicit by reference number, explicit value list of that length, not a standard property");
    idx[k] = nx_uint();
    { int found = 0; NItem* it = (NItem*)st.f2.f2; for (uint64_t j = 0; j < 8; j++) if (j < st.f2.f0 && it[j].key && it[j].key[0] == (k ? n1[0] : n0[0]) && it[j].value == idx[k]) found = 1;
      CHECK(found, "the reference number is the one the name table gives this name"); }
    if (k == 0) {
      CHECK(nx_byte() == 8 && nx_uint() == u, "unsigned integer value");
      CHECK(nx_byte() == 9 && nx_int() == si, "signed integer value");
#ifdef REAL
      { double d = nx_real(); union { uint64_t u; double d; } c; c.u = rbits; CHECK(c.d != c.d || d == c.d, "real value (any of the real forms)"); }
#else
      { union { uint64_t u; double d; } c; c.d = nx_real(); CHECK(c.u == rbits, "real value"); }
#endif
      { uint8_t t = nx_byte(); uint64_t si_ = nx_uint(); CHECK(t == cls(s0, 2), "string class: b-string if any byte is not printable, a-string if it has a space, else n-string");
        CHECK(si_ < st.f3.f1, "string reference inside the string table");
        if (si_ < st.f3.f1) { PVal* e = ((PVal**)st.f3.f2)[si_]; CHECK(PV_U64(e) == 2 && PV_BYTES(e)[0] == s0[0] && PV_BYTES(e)[1] == s0[1], "the table entry has exactly the bytes of the value"); } }
    } else {
      { uint8_t t = nx_byte(); uint64_t si_ = nx_uint(); CHECK(t == cls(s1, 2), "string class");
        CHECK(si_ < st.f3.f1, "string reference inside the string table");
        if (si_ < st.f3.f1) { PVal* e = ((PVal**)st.f3.f2)[si_]; CHECK(PV_U64(e) == 2 && PV_BYTES(e)[0] == s1[0] && PV_BYTES(e)[1] == s1[1], "the table entry has exactly the bytes of the value"); } }
#ifdef REAL
      { double d = nx_real(); union { uint64_t u; double d; } c; c.u = r1bits; CHECK(c.d != c.d || d == c.d, "real value"); }
#else
      { union { uint64_t u; double d; } c; c.d = nx_real(); CHECK(c.u == r1bits, "real value"); }
#endif
    } }
  CHECK(!bad && nx_done(), "well-formed records, nothing left over");
  if (NP == 2) CHECK((idx[0] == idx[1]) == (SAME != 0), "one reference number per distinct name");
  CHECK(st.f2.f1 == (uint64_t)((NP == 2 && !SAME) ? 2 : 1), "name table: one entry per distinct name");
  WITNESS_POINT();
  return 0;
}
