/* C02 (polygon sentence, writer half): whatever record the real Polygon::to_oas selects for a polygon - RECTANGLE (square or not),
   TRAPEZOID with delta-a / delta-b / both, one of the 26 CTRAPEZOID types, or POLYGON with one of the five point-list types -
   a reference decoder written from the record definitions (harness/oas_ref.h, oas_ref_tok.h) turns the emitted record back into
   the same vertex cycle (same points, any starting vertex, either direction) with the same 32-bit layer and datatype, every field
   explicit (nothing left to modal variables the writer has not set). The reader half - the real read_oas on each of these record
   kinds against the same reference - is C04 (reader_records, reader_records_more) and C19 (point_list_types_vs_reference); the two
   halves compose to the save/load round trip of a polygon for every detection-flag setting. */
#include "harness.h"
int64_t my_llround(double);
#include "prologue.h"
#include "vfile.h"
#include "zstub.h"
#include "libm.h"
#define OASTOK_STRINGS_AND_REALS
#include "oastok.h"
#include "oas_ref_tok.h"
#include "oas_ref.h"
typedef struct S_struct_gdstk__Polygon Poly;
typedef struct S_struct_gdstk__OasisStream Stream;
#define TO_OAS _ZNK5gdstk7Polygon6to_oasERNS_11OasisStreamERNS_10OasisStateE
#ifndef NVERT
#define NVERT 4
#endif
#ifndef R
#define R 4
#endif
#define BUF 96
#ifndef TAG
#define TAG(l, t) ((uint64_t)(l) | ((uint64_t)(t) << 32))
#endif
int main(void) {
  int64_t vx[NVERT], vy[NVERT]; double pts[2 * NVERT];
  for (int i = 0; i < NVERT; i++) { vx[i] = nd_range(-R, R); vy[i] = nd_range(-R, R); pts[2 * i] = (double)vx[i]; pts[2 * i + 1] = (double)vy[i]; }
  { int64_t twice = 0; for (int i = 0; i < NVERT; i++) { int j = (i + 1) % NVERT; twice += vx[i] * vy[j] - vx[j] * vy[i]; } ASSUME(twice != 0); }      /* non-zero area (the property's quantifier) */
  for (int i = 0; i < NVERT; i++) for (int j = 0; j < i; j++) ASSUME(!(vx[i] == vx[j] && vy[i] == vy[j]));                                              /* simple polygon: distinct vertices */
  uint32_t layer = nd_u32(), dtype = nd_u32();
  Poly poly = {0}; poly.f0 = TAG(layer, dtype); poly.f1.f0 = NVERT; poly.f1.f1 = NVERT; poly.f1.f2 = (void*)pts;
  uint8_t* buf = malloc(BUF); memset(buf, 0xA5, BUF);
  Stream out = {0}; out.f1 = buf; out.f2 = buf; out.f3 = BUF;
  ARGT__ZNK5gdstk7Polygon6to_oasERNS_11OasisStreamERNS_10OasisStateE_2 st = {0};
  st.f0 = 1.0; st.f4 = FLAGS;        /* scaling 1; config flags: 0x10 detect rectangles, 0x20 detect trapezoids (variant) */
  uint32_t werr = TO_OAS(&poly, &out, &st);
  CHECK(werr == 0, "the writer reports no error");
#ifdef REAL
  rp = buf; rend = out.f2;
#endif
  /* reference decoding of one geometry record */
  uint8_t rec = nx_byte(), info = nx_byte(); OBS("record", rec);
  CHECK((info & 0x03) == 0x03 && (info & 0x18) == 0x18 && !(info & 0x04), "layer, datatype, x and y explicit; no repetition");
  uint64_t rl = nx_uint(), rd = nx_uint();
  CHECK(rl == layer && rd == dtype, "layer and datatype (32 bits each)");
  int64_t gx[NVERT + 2], gy[NVERT + 2]; int n = 0; int64_t x0 = 0, y0 = 0;
  if (rec == 20) {                 /* RECTANGLE: S W H X Y R D L */
    CHECK((info & 0x40) && ((info & 0x80) ? !(info & 0x20) : (info & 0x20)), "width explicit; height explicit unless square");
    int64_t w = (int64_t)nx_uint(), h = (info & 0x80) ? w : (int64_t)nx_uint(); x0 = nx_int(); y0 = nx_int();
    n = ref_ctrapezoid(24, w, h, gx, gy);
  } else if (rec == 23 || rec == 24 || rec == 25) {      /* TRAPEZOID: O W H X Y R D L */
    CHECK((info & 0x60) == 0x60, "width and height explicit");
    int64_t w = (int64_t)nx_uint(), h = (int64_t)nx_uint(), da = rec != 25 ? nx_int() : 0, db = rec != 24 ? nx_int() : 0; x0 = nx_int(); y0 = nx_int();
    n = ref_trapezoid((info & 0x80) != 0, w, h, da, db, gx, gy);
  } else if (rec == 26) {          /* CTRAPEZOID: T W H X Y R D L */
    CHECK(info & 0x80, "type explicit");
    uint8_t t = nx_byte(); OBS("ctrapezoid", t); CHECK(t <= 25, "a defined ctrapezoid type");
    int use_h = t < 16 || t == 20 || t == 21 || t == 24, use_w = t != 20 && t != 21;
    CHECK(!use_w || (info & 0x40), "width explicit where the type uses it"); CHECK(!use_h || (info & 0x20), "height explicit where the type uses it");
    int64_t w = (info & 0x40) ? (int64_t)nx_uint() : 0, h = (info & 0x20) ? (int64_t)nx_uint() : 0; x0 = nx_int(); y0 = nx_int();
    n = ref_ctrapezoid(t, w, h, gx, gy);
  } else {                         /* POLYGON: 0 0 P X Y R D L; the point list precedes x and y, which give vertex 0 */
    CHECK(rec == 21 && (info & 0x20), "a POLYGON record with its point list");
    int64_t lx[NVERT + 2], ly[NVERT + 2]; lx[0] = 0; ly[0] = 0;
    n = ref_point_list(1, NVERT, lx, ly); x0 = nx_int(); y0 = nx_int();
    for (int i = 0; i < NVERT + 1; i++) if (i < n) { gx[i] = lx[i]; gy[i] = ly[i]; }
  }
  CHECK(!bad && nx_done(), "well-formed record: field kinds as the record definition prescribes, nothing left over");
  CHECK(n == NVERT, "the record denotes a polygon with as many vertices");
  for (int i = 0; i < NVERT; i++) if (i < n) { gx[i] += x0; gy[i] += y0; OBS("x", gx[i]); OBS("y", gy[i]); }
  CHECK(n != NVERT || ref_same_cycle(NVERT, gx, gy, vx, vy), "the record denotes the vertex cycle of the polygon that was saved");
  WITNESS_POINT();
  return 0;
}
