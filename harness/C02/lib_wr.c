/* C02 / C04 (writer direction, references and labels): Library::write_oas on a library with a cell holding one reference and one
   label. The record stream - START, CELL by reference number, PLACEMENT (record 17 or 18), TEXT, the CELLNAME and TEXTSTRING
   tables, END with table-offset flags, padding and validation scheme - is decoded by a reference decoder written from the
   record definitions; the decoded layout is the library: the placement names the referenced cell ('D') whether that cell is in
   the library (by CELLNAME number), referenced by name, or a cell object that was never added to the library (inline name);
   magnification, angle, reflection, position and the label's text (through the TEXTSTRING table), tag and position are the saved ones. */
#include "harness.h"
uint64_t my_strlen1(uint8_t* s); double my_exp2(double); int64_t my_llround(double);
#include "prologue.h"
#define VF_CAP 700
#define VF_NFILES 1
#define VF_FTELL_SCRIPT
#include "vfile.h"
#define ZSTUB_DEFLATE
#include "zstub.h"
#include "libm.h"
#define TOK_MAX 100
#define OASTOK_STRINGS_AND_REALS
#include "oastok.h"
#include "oas_ref_tok.h"
#include "gds_read.h"
#define WRITE_OAS _ZN5gdstk7Library9write_oasEPKcdht
#ifndef REAL
static uint64_t* Hh;
uint64_t _ZN5gdstk4hashEPKc(uint8_t* k) { return HASHFIX ? (uint64_t)k[0] : (Hh[k[0]] & 0xff); }      /* hash of a name: an arbitrary function (HASHFIX: the first character; Map<T> itself is C20) */
uint64_t my_strlen1(uint8_t* s) { __CPROVER_assert(s[0] != 0 && s[1] == 0, "1-character names"); return 1; }
#endif
#ifndef REAL
/* qhull (gdstk::convex_hull) is only reached for bounding-box standard properties, which this obligation does not request */
void _ZN5gdstk11convex_hullENS_5ArrayINS_4Vec2EEERS2_(ARGT__ZN5gdstk11convex_hullENS_5ArrayINS_4Vec2EEERS2__0* pts, ARGT__ZN5gdstk11convex_hullENS_5ArrayINS_4Vec2EEERS2__1* res) { __CPROVER_assert(0, "convex_hull reached"); }
#endif
#ifndef REAL
/* in the token model no bytes reach the file, so ftell is scripted: the table offsets (calls 1, 2) and the position at END (call 3) are 100; the
   position after the table-offset fields (call 4) is 349, which leaves a padding string of 3 bytes instead of ~240. Byte positions, the
   256-byte END record and the table offsets themselves are checked on the real bytes (REAL mode, every run's differential validation). */
static int ftc; uint64_t vf_ftell_script(void) { ftc++; return ftc <= 3 ? 100 : 349; }
#endif
#define PI 3.14159265358979323846
#define LIM (1 << 20)
/* TEXT record with the modal variables of the specification: a CELL record leaves text-x / text-y at 0 (absolute mode) and text string, layer and type undefined */
static int m_def; static uint64_t m_num, m_l, m_t; static int64_t m_x, m_y;
static void dec_cell(void) { m_def = 0; m_x = 0; m_y = 0; }
static void dec_text(uint64_t* num, uint64_t* l, uint64_t* t, int64_t* x, int64_t* y) {
  uint8_t rec = nx_byte(), info = nx_byte(); if (rec != 19 || (info & 0x84)) { bad = 1; return; }             /* no repetition */
  if (info & 0x40) { if (!(info & 0x20)) { bad = 1; return; } m_num = nx_uint(); m_def |= 1; } else if (!(m_def & 1)) bad = 1;      /* gdstk writes text by reference number */
  if (info & 0x01) { m_l = nx_uint(); m_def |= 2; } else if (!(m_def & 2)) bad = 1;
  if (info & 0x02) { m_t = nx_uint(); m_def |= 4; } else if (!(m_def & 4)) bad = 1;
  if (info & 0x10) m_x = nx_int();
  if (info & 0x08) m_y = nx_int();
  *num = m_num; *l = m_l; *t = m_t; *x = m_x; *y = m_y; }
int main(void) {
#ifdef __CPROVER__
  uint64_t Hloc[256]; Hh = Hloc;
#endif
  uint8_t nL[2] = {'L', 0}, nA[2] = {'A', 0}, nD[2] = {'D', 0}, txt[2] = {'t', 0}, fname[2] = {'f', 0};
  int64_t rx = nd_range(-LIM, LIM), ry = nd_range(-LIM, LIM), lx = nd_range(-LIM, LIM), ly = nd_range(-LIM, LIM); uint32_t ll = nd_u32(), lt = nd_u32();
  /* TGT: 0 reference to the cell object D, D in the library; 1 reference to the cell object D, D NOT in the library; 2 by name, D in the library; 3 by name, no such cell */
  Cell D = {0}; D.f0 = nD;
  Ref ref = {0}; if (TGT <= 1) { ref.f0 = 0; *(Cell**)&ref.f1 = &D; } else { ref.f0 = 2; *(uint8_t**)&ref.f1 = nD; }
  VXD(ref.f2) = (double)rx; VYD(ref.f2) = (double)ry; ref.f5 = REFL;
  uint64_t mbits = 0x3ff0000000000000ULL;      /* 1.0 */
#if MAGSYM
  mbits = 0x4004000000000000ULL;               /* 2.5: whether the magnification is 1 decides the record kind, so it is a variant; the value is written bit for bit */
#endif
  ref.f4 = bc_i64_f(mbits);
  static const double ROTS[5] = {0.0, 0.5 * PI, PI, -0.5 * PI, 0.3};
  ref.f3 = ROTS[ROTK];
  Label lab = {0}; lab.f0 = TAG(ll, lt); lab.f1 = txt; VXD(lab.f2) = (double)lx; VYD(lab.f2) = (double)ly; lab.f5 = 1.0;
#if LAB2      /* a second label, in the other cell: position modal variables do not survive a CELL record */
  int64_t lx2 = nd_bool() ? lx : nd_range(-LIM, LIM), ly2 = nd_bool() ? ly : nd_range(-LIM, LIM); uint32_t ll2 = nd_u32(), lt2 = nd_u32();      /* coordinates shared with the first label get their own weight */
  Label lab2 = {0}; lab2.f0 = TAG(ll2, lt2); lab2.f1 = txt; VXD(lab2.f2) = (double)lx2; VYD(lab2.f2) = (double)ly2; lab2.f5 = 1.0;
  Label* lb[1] = {&lab2}; D.f5.f0 = 1; D.f5.f1 = 1; D.f5.f2 = (void*)lb;
#endif
  Cell A = {0}; A.f0 = nA; Ref* ra[1] = {&ref}; A.f2.f0 = 1; A.f2.f1 = 1; A.f2.f2 = (void*)ra; Label* la[1] = {&lab}; A.f5.f0 = 1; A.f5.f1 = 1; A.f5.f2 = (void*)la;
  int ncell = (TGT == 0 || TGT == 2) ? 2 : 1; Cell* ca[2] = {&A, &D};
  Lib lib = {0}; lib.f0 = nL; lib.f1 = 1e-6; lib.f2 = 1e-6; lib.f3.f0 = ncell; lib.f3.f1 = ncell; lib.f3.f2 = (void*)ca;
  uint32_t rc = WRITE_OAS(&lib, fname, 0.0, 0, 0);
  CHECK(rc == 0 && vf_open_count == 0, "write_oas succeeds and closes the file");
#ifdef REAL
  rp = vf_files[0].data; rend = vf_files[0].data + vf_files[0].len;
#endif
  /* ---- reference decoding ---- */
  { static const uint8_t M[18] = {'%', 'S', 'E', 'M', 'I', '-', 'O', 'A', 'S', 'I', 'S', '\r', '\n', 1, 3, '1', '.', '0'}; int ok = 1; for (int i = 0; i < 18; i++) if (nx_byte() != M[i]) ok = 0; CHECK(ok, "magic, START, version 1.0"); }
  { double unit = nx_real(); CHECK(unit == 1.0, "grid steps per micron: 1e-6 / precision"); CHECK(nx_byte() == 1, "table offsets are in the END record"); }
  uint8_t cname[2] = {0, 0}; int ncn = 0;                    /* CELLNAME table, filled below */
  uint8_t pl_byname = 0, pl_name = 0; uint64_t pl_num = 0; uint8_t pl_info = 0, pl_rec = 0; double pl_mag = 1.0, pl_ang = 0.0; int64_t px = 0, py = 0;
  uint64_t tx_num = 0, tl = 0, tt = 0; int64_t tx = 0, ty = 0; uint8_t tstr = 0; uint64_t tstr_num = 99;
  uint64_t tx_num2 = 0, tl2 = 0, tt2 = 0; int64_t tx2 = 0, ty2 = 0;
  for (int c = 0; c < 2; c++) if (c < ncell) {
    CHECK(nx_byte() == 13 && nx_uint() == (uint64_t)c, "CELL record by reference number, numbered in library order"); dec_cell();
    if (c == 0) {
      pl_rec = nx_byte(); pl_info = nx_byte(); CHECK(pl_rec == 17 || pl_rec == 18, "a PLACEMENT record");
      CHECK((pl_info & 0x80) && (pl_info & 0x30) == 0x30 && !(pl_info & 0x08), "cell explicit, x and y explicit, no repetition");
      if (pl_info & 0x40) pl_num = nx_uint(); else { pl_byname = 1; CHECK(nx_uint() == 1, "inline cell name: one character"); pl_name = nx_byte(); }
      if (pl_rec == 18) { if (pl_info & 0x04) pl_mag = nx_real(); if (pl_info & 0x02) pl_ang = nx_real(); }
      px = nx_int(); py = nx_int();
      dec_text(&tx_num, &tl, &tt, &tx, &ty); }
#if LAB2
    else { dec_text(&tx_num2, &tl2, &tt2, &tx2, &ty2); }
#endif
  }
  for (int c = 0; c < 2; c++) if (c < ncell) { CHECK(nx_byte() == 3 && nx_uint() == 1, "CELLNAME record (implicit numbering), one character"); cname[ncn++] = nx_byte(); }
  CHECK(nx_byte() == 6 && nx_uint() == 1, "TEXTSTRING record with explicit number"); tstr = nx_byte(); tstr_num = nx_uint();
  CHECK(nx_byte() == 2, "END record");
  { int ok = 1; for (int k = 0; k < 4; k++) { if (nx_byte() != 1) ok = 0; (void)nx_uint(); } if (nx_byte() != 1 || nx_byte() != 0 || nx_byte() != 1 || nx_byte() != 0) ok = 0; CHECK(ok, "six table-offset entries, strict flag set, LAYERNAME and XNAME tables absent"); }
  { uint64_t pad = nx_uint(); CHECK(pad <= 255, "padding string");
#ifdef REAL
    for (int i = 0; i < 256; i++) if ((uint64_t)i < pad) CHECK(nx_byte() == 0, "padding bytes are zero");
#else
    CHECK(pad == 3, "padding length = 252 + position at END - position after the table offsets (scripted positions)"); for (int i = 0; i < 3; i++) CHECK(nx_byte() == 0, "padding bytes are zero");
#endif
    CHECK(nx_byte() == 0, "validation scheme: none"); }
  CHECK(!bad && nx_done(), "well-formed file: field kinds as the record definitions prescribe, nothing left over");
#ifdef REAL
  CHECK(vf_files[0].len >= 256 && vf_files[0].data[vf_files[0].len - 256] == 2, "the END record is exactly the last 256 bytes of the file");
#endif
  /* ---- the decoded layout is the library ---- */
  CHECK(cname[0] == 'A' && (ncell < 2 || cname[1] == 'D'), "cell names, in order");
  { uint8_t target = pl_byname ? pl_name : (pl_num < (uint64_t)ncn ? cname[pl_num] : 0); OBS("target", target); CHECK(target == 'D', "the placement names the referenced cell"); }
  CHECK(px == rx && py == ry && (pl_info & 1) == REFL, "placement position and reflection");
  { double want_deg = ROTS[ROTK] * (180.0 / PI);
    if (pl_rec == 17) { unsigned aa = (pl_info >> 1) & 3; CHECK(bc_f_i64(bc_i64_f(mbits)) == 0x3ff0000000000000LL, "record 17 only for unit magnification"); CHECK(ROTK < 4 && aa == (unsigned)(ROTK == 3 ? 3 : ROTK), "rotation code = quarter turns (mod 4)"); }
    else { CHECK(bc_f_i64(pl_mag) == (int64_t)mbits || (!(pl_info & 0x04) && mbits == 0x3ff0000000000000ULL), "magnification as saved (absent: 1)"); CHECK(pl_ang == want_deg || (!(pl_info & 0x02) && ROTS[ROTK] == 0.0), "angle in degrees as saved (absent: 0)"); } }
  CHECK(tstr == 't' && tstr_num == tx_num, "label text through the TEXTSTRING table");
  CHECK(tl == ll && tt == lt && tx == lx && ty == ly, "label layer, type and position");
#if LAB2
  CHECK(tstr_num == tx_num2 && tl2 == ll2 && tt2 == lt2 && tx2 == lx2 && ty2 == ly2, "the label of the second cell: text, layer, type and position (a strict decoder starts every cell with text position 0 and no text string / layer / type)");
#endif
  WITNESS_POINT();
  return 0;
}
