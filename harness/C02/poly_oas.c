/* C02 / C04: a polygon written by the real Polygon::to_oas with rectangle and trapezoid detection enabled - whichever of RECTANGLE,
   TRAPEZOID_A/B/AB, one of the 26 CTRAPEZOID types or POLYGON the writer selects - is loaded by the real read_oas as a polygon
   with the same vertex cycle (same points, any starting vertex, either direction), same 32-bit layer and datatype.
   Integers / deltas as typed tokens (engine/env/oastok.h); grid 1; coordinates on a small integer grid. */
#include "harness.h"
#include "prologue.h"
#define VF_CAP 32
#include "vfile.h"
#define ZSTUB_INFLATE
#include "zstub.h"
#define OASTOK_STRINGS_AND_REALS
#include "oastok.h"
#include "gds_read.h"
#define READ_OAS _ZN5gdstk8read_oasEPKcddPNS_9ErrorCodeE
#define TO_OAS _ZNK5gdstk7Polygon6to_oasERNS_11OasisStreamERNS_10OasisStateE
#ifndef NVERT
#define NVERT 4
#endif
#ifndef R
#define R 3
#endif
static void B(uint8_t b) { tok_put(K_BYTE, b, 0); }
static void U(uint64_t v) { tok_put(K_UINT, v, 0); }
int main(void) {
  int32_t vx[NVERT], vy[NVERT]; double pts[2 * NVERT];
  for (int i = 0; i < NVERT; i++) { vx[i] = (int32_t)nd_range(-R, R); vy[i] = (int32_t)nd_range(-R, R); pts[2 * i] = (double)vx[i]; pts[2 * i + 1] = (double)vy[i]; }
  { int64_t twice = 0; for (int i = 0; i < NVERT; i++) { int j = (i + 1) % NVERT; twice += (int64_t)vx[i] * vy[j] - (int64_t)vx[j] * vy[i]; } ASSUME(twice != 0); }      /* non-zero area (the property's quantifier) */
  for (int i = 0; i < NVERT; i++) for (int j = 0; j < i; j++) ASSUME(!(vx[i] == vx[j] && vy[i] == vy[j]));                                                            /* simple polygon: distinct vertices */
  uint32_t layer = nd_u32(), dtype = nd_u32();
  Poly poly = {0}; poly.f0 = TAG(layer, dtype); poly.f1.f0 = NVERT; poly.f1.f1 = NVERT; poly.f1.f2 = (void*)pts;
  /* file prologue as tokens, then the element as the real writer emits it, then END */
  { static const uint8_t M[13] = {'%', 'S', 'E', 'M', 'I', '-', 'O', 'A', 'S', 'I', 'S', '\r', '\n'}; for (int i = 0; i < 13; i++) vf_files[0].data[i] = M[i]; vf_files[0].data[13] = 1; vf_files[0].len = 14; }
  U(3); B('1'); B('.'); B('0'); tok_put(K_REAL, 0x3ff0000000000000ULL, 0); U(0); for (int i = 0; i < 12; i++) U(0);
  B(14); U(1); B('A');
  struct S_struct_gdstk__OasisStream out = {0}; ARGT__ZNK5gdstk7Polygon6to_oasERNS_11OasisStreamERNS_10OasisStateE_2 st = {0};
  st.f0 = 1.0; st.f4 = 0x0030;        /* scaling 1; OASIS_CONFIG_DETECT_RECTANGLES | OASIS_CONFIG_DETECT_TRAPEZOIDS */
  int before = tok_n;
  uint32_t werr = TO_OAS(&poly, &out, &st);
  CHECK(werr == 0 && tok_n > before, "the writer emitted a record");
  OBS("record", TOK[before].a);
  B(2);
  uint8_t fname[2] = {'f', 0}; uint32_t err = 0; Lib lib = {0};
  READ_OAS(&lib, fname, 0.0, 0.0, &err);
  CHECK(err == 0 && !tok_kind_error && tok_k == tok_n, "the reader accepts the record: token kinds agree, everything consumed");
  Cell* c = lib_cell(&lib, 0); CHECK(lib.f3.f1 == 1 && c->f1.f1 == 1, "one cell, one polygon");
  Poly* p = ((Poly**)c->f1.f2)[0]; double* q = (double*)p->f1.f2;
  CHECK(p->f0 == TAG(layer, dtype), "layer and datatype (32 bits each)");
  CHECK(p->f1.f1 == NVERT, "same number of vertices");
  /* same cycle up to rotation and direction */
  { int ok = 0;
    for (int s = 0; s < NVERT; s++) for (int dir = 0; dir < 2; dir++) { int all = 1;
      for (int i = 0; i < NVERT; i++) { int k = dir ? (s + NVERT - i) % NVERT : (s + i) % NVERT; if (!(q[2 * i] == (double)vx[k] && q[2 * i + 1] == (double)vy[k])) all = 0; }
      if (all) ok = 1; }
    CHECK(ok, "the loaded polygon has the vertex cycle of the polygon that was saved"); }
  WITNESS_POINT();
  return 0;
}
