/* free-symbol cos/sin shared by the transform harnesses (C10, C11, C06, C09): arbitrary integers (c, s) != (0, 0) in every mode. */
typedef int32_t OI;
static OI C_ = 1, S_ = 0;
#ifndef REAL
NUM ie_cos(NUM a) { return NUM_OF_INT(C_); }
NUM ie_sin(NUM a) { return NUM_OF_INT(S_); }
#else
/* replay against the real code: the link uses --wrap=cos,--wrap=sin, so the real code's calls to libm return the
   counterexample's (c, s); everything else is the real compiled code */
double __wrap_cos(double a) { return (double)C_; }
double __wrap_sin(double a) { return (double)S_; }
void __wrap_sincos(double a, double* s, double* c) { *s = (double)S_; *c = (double)C_; }    /* gcc fuses sin+cos into sincos */
#endif
static NUM pick_rotation(int rot0) {
  if (rot0) { C_ = 1; S_ = 0; return NUM_OF_INT(0); }
  C_ = (OI)nd_range(-2, 2); S_ = (OI)nd_range(-2, 2); ASSUME(C_ != 0 || S_ != 0);
#ifdef AXIS_ONLY
  ASSUME((C_ == 0 && (S_ == 1 || S_ == -1)) || (S_ == 0 && C_ == -1));      /* optional: rotations an exact angle k*pi/2 realises */
#endif
  return NUM_OF_INT(1);     /* any non-zero angle: its cosine and sine are the free symbols */
}
#define VX(v) ((v).f0.f0.f0)
#define VY(v) ((v).f0.f0.f1)
