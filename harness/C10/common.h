/* free-symbol cos/sin shared by the transform harnesses (C10, C06, C09): CBMC: arbitrary integers (c, s) != (0, 0);
   native / -DAXIS_ONLY: the three non-identity rotations by k*pi/2, which an exact angle realises. */
typedef int32_t OI;
static OI C_ = 1, S_ = 0;
#ifndef REAL
NUM ie_cos(NUM a) { return NUM_OF_INT(C_); }
NUM ie_sin(NUM a) { return NUM_OF_INT(S_); }
#endif
static NUM pick_rotation(int rot0) {
  if (rot0) { C_ = 1; S_ = 0; return NUM_OF_INT(0); }
#if defined(__CPROVER__) && !defined(AXIS_ONLY)
  C_ = (OI)nd_range(-2, 2); S_ = (OI)nd_range(-2, 2); ASSUME(C_ != 0 || S_ != 0);
  return NUM_OF_INT(1);
#else
  { int k = (int)nd_range(1, 3); C_ = k == 2 ? -1 : 0; S_ = k == 1 ? 1 : k == 3 ? -1 : 0;
#ifdef REAL
    return k == 1 ? 1.5707963267948966 : k == 2 ? 3.141592653589793 : -1.5707963267948966;
#else
    return NUM_OF_INT(1);
#endif
  }
#endif
}
#define VX(v) ((v).f0.f0.f0)
#define VY(v) ((v).f0.f0.f1)
