/* free-symbol cos/sin shared by the transform harnesses (C10, C11, C06, C09): arbitrary integers (c, s) != (0, 0) in every mode. */
typedef int32_t OI;
static OI C_ = 1, S_ = 0;
#ifndef REAL
NUM ie_cos(NUM a) { return NUM_OF_INT(C_); }
NUM ie_sin(NUM a) { return NUM_OF_INT(S_); }
#else
/* replay against the real code: the link uses --wrap=cos,--wrap=sin, so the real code's calls to libm return the
   counterexample's (c, s); everything else is the real compiled code */
double __wrap_cos(double a) { return (double)C_; }
double __wrap_sin(double a) { return (double)S_; }
void __wrap_sincos(double a, double* s, double* c) { *s = (double)S_; *c = (double)C_; }    /* gcc fuses sin+cos into sincos */
#endif
static int QM_;      /* rot0 == 2: the rotation is QM_ quarter turns, QM_ in -4..4 (exact multiples of pi/2 take separate branches in the code) */
static NUM pick_rotation(int rot0) {
  if (rot0 == 1) { C_ = 1; S_ = 0; return NUM_OF_INT(0); }
  if (rot0 == 2) { QM_ = (int)nd_range(-4, 4); int k = ((QM_ % 4) + 4) % 4; C_ = k == 0 ? 1 : k == 2 ? -1 : 0; S_ = k == 1 ? 1 : k == 3 ? -1 : 0;
#ifdef REAL
    return (double)QM_ * (3.14159265358979323846 / 2);      /* the real angle; libm's cos/sin are wrapped to the exact (C_, S_) */
#else
    return NUM_OF_INT(100 + QM_);                             /* marker understood by the is_multiple_of_pi_over_2 contract below */
#endif
  }
  C_ = (OI)nd_range(-2, 2); S_ = (OI)nd_range(-2, 2); ASSUME(C_ != 0 || S_ != 0);
#ifdef AXIS_ONLY
  ASSUME((C_ == 0 && (S_ == 1 || S_ == -1)) || (S_ == 0 && C_ == -1));      /* optional: rotations an exact angle k*pi/2 realises */
#endif
  return NUM_OF_INT(1);     /* any non-zero angle: its cosine and sine are the free symbols */
}
#define VX(v) ((v).f0.f0.f0)
#define VY(v) ((v).f0.f0.f1)

#if !defined(REAL) && defined(QUARTER_TURN_CONTRACT)
/* gdstk::is_multiple_of_pi_over_2 by contract for the angle markers of pick_rotation: 0 -> m = 0; 100 + q -> m = q; the free angle 1 -> no multiple */
uint8_t _ZN5gdstk24is_multiple_of_pi_over_2EdRl(NUM angle, uint64_t* m) { if (NUM_EQ(angle, NUM_OF_INT(0))) { *m = 0; return 1; }
  for (int q = -4; q <= 4; q++) if (NUM_EQ(angle, NUM_OF_INT(100 + q))) { *m = (uint64_t)(int64_t)q; return 1; }
  return 0; }
#endif
