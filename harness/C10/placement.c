/* C10: Label::transform and Reference::transform compose two placements: origin mapped by the affine map, rotation
   r1*rotation + rot (sign flips under reflection), magnifications multiply, reflections xor. */
#include "prologue.h"
#include "C10/common.h"
#define RR 3
int main(void) {
  OI ox = (OI)nd_range(-RR, RR), oy = (OI)nd_range(-RR, RR), r0 = (OI)nd_range(-3, 3), m0 = (OI)nd_range(-3, 3); int f0 = nd_bool();
  OI tx = (OI)nd_range(-RR, RR), ty = (OI)nd_range(-RR, RR), m = (OI)nd_range(-3, 3);
  NUM rot = pick_rotation(ROT0); OI rotv = ROT0 ? 0 : 1;
#ifdef REAL
  double rotd = rot;
#endif
  OI sgn = REFL ? -1 : 1;
  OI eox = tx + m * (ox * C_ - sgn * oy * S_), eoy = ty + m * (ox * S_ + sgn * oy * C_);
#if KIND == 0
  struct S_struct_gdstk__Label e = {0};
  VX(e.f2) = NUM_OF_INT(ox); VY(e.f2) = NUM_OF_INT(oy); e.f4 = NUM_OF_INT(r0); e.f5 = NUM_OF_INT(m0); e.f6 = (uint8_t)f0;
  _ZN5gdstk5Label9transformEdbdNS_4Vec2E(&e, NUM_OF_INT(m), REFL, rot, NUM_OF_INT(tx), NUM_OF_INT(ty));
  NUM gx = VX(e.f2), gy = VY(e.f2), grot = e.f4, gmag = e.f5; int gf = e.f6 & 1;
#else
  struct S_struct_gdstk__Reference e = {0};
  VX(e.f2) = NUM_OF_INT(ox); VY(e.f2) = NUM_OF_INT(oy); e.f3 = NUM_OF_INT(r0); e.f4 = NUM_OF_INT(m0); e.f5 = (uint8_t)f0;
  _ZN5gdstk9Reference9transformEdbdNS_4Vec2E(&e, NUM_OF_INT(m), REFL, rot, NUM_OF_INT(tx), NUM_OF_INT(ty));
  NUM gx = VX(e.f2), gy = VY(e.f2), grot = e.f3, gmag = e.f4; int gf = e.f5 & 1;
#endif
  OBS("x", NUM_TO_I64(gx)); OBS("y", NUM_TO_I64(gy)); OBS("mag", NUM_TO_I64(gmag)); OBS("refl", gf);
  CHECK(NUM_EQ(gx, NUM_OF_INT(eox)) && NUM_EQ(gy, NUM_OF_INT(eoy)), "origin mapped by the outer placement");
#ifdef REAL
  CHECK(num_eq_tol(grot, sgn * (double)r0 + rotd), "rotation = +-rotation + rot (sign flips under reflection)");
#else
  CHECK(NUM_EQ(grot, NUM_OF_INT(sgn * r0 + rotv)), "rotation = +-rotation + rot (sign flips under reflection)");
#endif
  CHECK(NUM_EQ(gmag, NUM_OF_INT(m0 * m)), "magnifications multiply");
  CHECK(gf == (f0 ^ REFL), "reflections xor");
  WITNESS_POINT();
  return 0;
}
