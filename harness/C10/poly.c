/* C10: Polygon::translate / scale / rotate / transform / mirror move every vertex as the documented affine map does. */
#include "prologue.h"
#include "C10/common.h"
typedef struct S_struct_gdstk__Polygon Poly;
#define NV 2
#define RR 3
int main(void) {
  Poly poly = {0};
  OI vx[NV], vy[NV]; NUM* pts = malloc(sizeof(NUM) * 2 * NV);
  for (int i = 0; i < NV; i++) { vx[i] = (OI)nd_range(-RR, RR); vy[i] = (OI)nd_range(-RR, RR); pts[2 * i] = NUM_OF_INT(vx[i]); pts[2 * i + 1] = NUM_OF_INT(vy[i]); }
  poly.f1.f0 = NV; poly.f1.f1 = NV; poly.f1.f2 = (void*)pts;
  OI ax = (OI)nd_range(-RR, RR), ay = (OI)nd_range(-RR, RR), bx = (OI)nd_range(-RR, RR), by = (OI)nd_range(-RR, RR);
  OI ex[NV], ey[NV];
#if OP == 0
  _ZN5gdstk7Polygon9translateENS_4Vec2E(&poly, NUM_OF_INT(ax), NUM_OF_INT(ay));
  for (int i = 0; i < NV; i++) { ex[i] = vx[i] + ax; ey[i] = vy[i] + ay; }
#elif OP == 1     /* scale(factor (bx,by), center (ax,ay)) */
  _ZN5gdstk7Polygon5scaleENS_4Vec2ES1_(&poly, NUM_OF_INT(bx), NUM_OF_INT(by), NUM_OF_INT(ax), NUM_OF_INT(ay));
  for (int i = 0; i < NV; i++) { ex[i] = (vx[i] - ax) * bx + ax; ey[i] = (vy[i] - ay) * by + ay; }
#elif OP == 2     /* rotate(angle, center) */
  { NUM rot = pick_rotation(ROT0 == 2 ? 2 : 0);
    _ZN5gdstk7Polygon6rotateEdNS_4Vec2E(&poly, rot, NUM_OF_INT(ax), NUM_OF_INT(ay));
    for (int i = 0; i < NV; i++) { OI qx = vx[i] - ax, qy = vy[i] - ay; ex[i] = qx * C_ - qy * S_ + ax; ey[i] = qx * S_ + qy * C_ + ay; } }
#elif OP == 3     /* transform(m, refl, rot, origin): magnify, reflect across x, rotate, translate */
  { OI m = (OI)nd_range(-3, 3); NUM rot = pick_rotation(ROT0);
    _ZN5gdstk7Polygon9transformEdbdNS_4Vec2E(&poly, NUM_OF_INT(m), REFL, rot, NUM_OF_INT(ax), NUM_OF_INT(ay));
    for (int i = 0; i < NV; i++) { OI qx = m * vx[i], qy = (REFL ? -1 : 1) * m * vy[i]; ex[i] = qx * C_ - qy * S_ + ax; ey[i] = qx * S_ + qy * C_ + ay; } }
#elif OP == 4     /* mirror across the line through p0 = (ax,ay) with direction d: axis-parallel or diagonal unit steps (|d|^2 in {1,2}: 2/|d|^2 exact) */
  { OI dx = (OI)nd_range(-1, 1), dy = (OI)nd_range(-1, 1); OI n2 = dx * dx + dy * dy;
    _ZN5gdstk7Polygon6mirrorENS_4Vec2ES1_(&poly, NUM_OF_INT(ax), NUM_OF_INT(ay), NUM_OF_INT(ax + dx), NUM_OF_INT(ay + dy));
    for (int i = 0; i < NV; i++) { if (n2 == 0) { ex[i] = vx[i]; ey[i] = vy[i]; } else { OI t = ((vx[i] - ax) * dx + (vy[i] - ay) * dy) * (2 / n2); ex[i] = ax + t * dx - (vx[i] - ax); ey[i] = ay + t * dy - (vy[i] - ay); } } }
#endif
  for (int i = 0; i < NV; i++) { OBS("x", NUM_TO_I64(pts[2 * i])); OBS("y", NUM_TO_I64(pts[2 * i + 1]));
    CHECK(NUM_EQ(pts[2 * i], NUM_OF_INT(ex[i])) && NUM_EQ(pts[2 * i + 1], NUM_OF_INT(ey[i])), "vertex image equals the affine map's image"); }
  CHECK(poly.f1.f1 == NV && poly.f1.f2 == (void*)pts, "vertex count and storage unchanged");
  WITNESS_POINT();
  return 0;
}
