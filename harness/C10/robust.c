/* C10: RobustPath transform algebra: translate / simple_scale / scale / simple_rotate / rotate / x_reflection / transform
   compose the 2x3 matrix trafo with the operation's affine map from ANY prior trafo (so sequences are covered inductively);
   width_scale x|f| iff scale_width, offset_scale x|f| and negated by a reflection, end extensions x|f|. */
#include "prologue.h"
#include "C10/common.h"
typedef struct S_struct_gdstk__RobustPath Path;
typedef struct S_struct_gdstk__RobustPathElement Elem;
#define RR 2
static OI iabs(OI a) { return a < 0 ? -a : a; }
int main(void) {
  Path p = {0};
  OI t[6], ws = (OI)nd_range(1, 3), os = (OI)nd_range(-3, 3), e0 = (OI)nd_range(0, 3), e1 = (OI)nd_range(0, 3);
  for (int i = 0; i < 6; i++) { t[i] = (OI)nd_range(-RR, RR); p.f8.a[i] = NUM_OF_INT(t[i]); }
  p.f6 = NUM_OF_INT(ws); p.f7 = NUM_OF_INT(os); p.f10 = SCALEW;
  Elem* el = malloc(sizeof(Elem)); memset(el, 0, sizeof(Elem)); VX(el->f6) = NUM_OF_INT(e0); VY(el->f6) = NUM_OF_INT(e1); p.f2 = el; p.f3 = 1;
  OI ax = (OI)nd_range(-RR, RR), ay = (OI)nd_range(-RR, RR);
  /* operation as an affine map [a b u; c d v] applied AFTER the prior trafo */
  OI a = 1, b = 0, u = 0, c = 0, d = 1, v = 0, wfac = 1, ofac = 1, xfac = 1;
#if OP == 0
  _ZN5gdstk10RobustPath9translateENS_4Vec2E(&p, NUM_OF_INT(ax), NUM_OF_INT(ay)); u = ax; v = ay;
#elif OP == 1
  { OI f = (OI)nd_range(-3, 3); _ZN5gdstk10RobustPath12simple_scaleEd(&p, NUM_OF_INT(f)); a = f; d = f; wfac = SCALEW ? iabs(f) : 1; ofac = iabs(f); xfac = iabs(f); }
#elif OP == 2
  { OI f = (OI)nd_range(-3, 3); _ZN5gdstk10RobustPath5scaleEdNS_4Vec2E(&p, NUM_OF_INT(f), NUM_OF_INT(ax), NUM_OF_INT(ay)); a = f; d = f; u = ax - f * ax; v = ay - f * ay; wfac = SCALEW ? iabs(f) : 1; ofac = iabs(f); xfac = iabs(f); }
#elif OP == 3
  { NUM rot = pick_rotation(0); _ZN5gdstk10RobustPath13simple_rotateEd(&p, rot); a = C_; b = -S_; c = S_; d = C_; }
#elif OP == 4
  { NUM rot = pick_rotation(0); _ZN5gdstk10RobustPath6rotateEdNS_4Vec2E(&p, rot, NUM_OF_INT(ax), NUM_OF_INT(ay)); a = C_; b = -S_; c = S_; d = C_; u = ax - (C_ * ax - S_ * ay); v = ay - (S_ * ax + C_ * ay); }
#elif OP == 5
  _ZN5gdstk10RobustPath12x_reflectionEv(&p); d = -1; ofac = -1;
#elif OP == 6
  { OI m = (OI)nd_range(-3, 3); NUM rot = pick_rotation(ROT0);
    _ZN5gdstk10RobustPath9transformEdbdNS_4Vec2E(&p, NUM_OF_INT(m), REFL, rot, NUM_OF_INT(ax), NUM_OF_INT(ay));
    OI r = REFL ? -1 : 1; a = C_ * m; b = -S_ * m * r; c = S_ * m; d = C_ * m * r; u = ax; v = ay; wfac = SCALEW ? iabs(m) : 1; ofac = r * iabs(m); xfac = iabs(m); }
#endif
  OI ex[6] = { a * t[0] + b * t[3], a * t[1] + b * t[4], a * t[2] + b * t[5] + u, c * t[0] + d * t[3], c * t[1] + d * t[4], c * t[2] + d * t[5] + v };
  for (int i = 0; i < 6; i++) { OBS("t", NUM_TO_I64(p.f8.a[i])); CHECK(NUM_EQ(p.f8.a[i], NUM_OF_INT(ex[i])), "trafo == (operation's affine map) o (prior trafo)"); }
  CHECK(NUM_EQ(p.f6, NUM_OF_INT(ws * wfac)), "width_scale x|f| iff scale_width");
  CHECK(NUM_EQ(p.f7, NUM_OF_INT(os * ofac)), "offset_scale x|f|, negated by a reflection");
  CHECK(NUM_EQ(VX(el->f6), NUM_OF_INT(e0 * xfac)) && NUM_EQ(VY(el->f6), NUM_OF_INT(e1 * xfac)), "end extensions x|f|");
  WITNESS_POINT();
  return 0;
}
