/* C10: FlexPath::translate / scale / mirror / rotate / transform: spine points move by the affine map; half-widths are
   multiplied by |factor| iff scale_width; offsets are always multiplied by |factor| and change sign under a reflection
   (mirror, x_reflection) - the offset side is defined relative to the direction of travel, which a reflection reverses;
   end extensions are lengths and scale with |factor|. */
#include "prologue.h"
#include "C10/common.h"
typedef struct S_struct_gdstk__FlexPath Path;
typedef struct S_struct_gdstk__FlexPathElement Elem;
#define NP 2
#define NE 2
#define RR 3
static OI iabs(OI a) { return a < 0 ? -a : a; }
int main(void) {
  Path path = {0};
  OI sx[NP], sy[NP], hw[NE][NP], of[NE][NP], e0[NE], e1[NE];
  NUM* sp = malloc(sizeof(NUM) * 2 * NP);
  for (int i = 0; i < NP; i++) { sx[i] = (OI)nd_range(-RR, RR); sy[i] = (OI)nd_range(-RR, RR); sp[2 * i] = NUM_OF_INT(sx[i]); sp[2 * i + 1] = NUM_OF_INT(sy[i]); }
  path.f0.f0.f0 = NP; path.f0.f0.f1 = NP; path.f0.f0.f2 = (void*)sp;
  Elem* el = malloc(sizeof(Elem) * NE); memset(el, 0, sizeof(Elem) * NE); NUM* wo[NE];
  for (int e = 0; e < NE; e++) { wo[e] = malloc(sizeof(NUM) * 2 * NP);
    for (int i = 0; i < NP; i++) { hw[e][i] = (OI)nd_range(0, 3); of[e][i] = (OI)nd_range(-3, 3); wo[e][2 * i] = NUM_OF_INT(hw[e][i]); wo[e][2 * i + 1] = NUM_OF_INT(of[e][i]); }
    el[e].f1.f0 = NP; el[e].f1.f1 = NP; el[e].f1.f2 = (void*)wo[e];
    e0[e] = (OI)nd_range(0, 3); e1[e] = (OI)nd_range(0, 3); VX(el[e].f6) = NUM_OF_INT(e0[e]); VY(el[e].f6) = NUM_OF_INT(e1[e]); }
  path.f1 = el; path.f2 = NE; path.f4 = SCALEW;
  OI ax = (OI)nd_range(-RR, RR), ay = (OI)nd_range(-RR, RR);
  OI ex[NP], ey[NP]; OI wfac = 1, ofac = 1, xfac = 1;      /* expected factors for half-width, offset, end extension */
#if OP == 0
  _ZN5gdstk8FlexPath9translateENS_4Vec2E(&path, NUM_OF_INT(ax), NUM_OF_INT(ay));
  for (int i = 0; i < NP; i++) { ex[i] = sx[i] + ax; ey[i] = sy[i] + ay; }
#elif OP == 1
  { OI f = (OI)nd_range(-3, 3);
    _ZN5gdstk8FlexPath5scaleEdNS_4Vec2E(&path, NUM_OF_INT(f), NUM_OF_INT(ax), NUM_OF_INT(ay));
    for (int i = 0; i < NP; i++) { ex[i] = (sx[i] - ax) * f + ax; ey[i] = (sy[i] - ay) * f + ay; }
    wfac = SCALEW ? iabs(f) : 1; ofac = iabs(f); xfac = iabs(f); }
#elif OP == 2
  { NUM rot = pick_rotation(0);
    _ZN5gdstk8FlexPath6rotateEdNS_4Vec2E(&path, rot, NUM_OF_INT(ax), NUM_OF_INT(ay));
    for (int i = 0; i < NP; i++) { OI qx = sx[i] - ax, qy = sy[i] - ay; ex[i] = qx * C_ - qy * S_ + ax; ey[i] = qx * S_ + qy * C_ + ay; } }
#elif OP == 3
  { OI m = (OI)nd_range(-3, 3); NUM rot = pick_rotation(ROT0);
    _ZN5gdstk8FlexPath9transformEdbdNS_4Vec2E(&path, NUM_OF_INT(m), REFL, rot, NUM_OF_INT(ax), NUM_OF_INT(ay));
    for (int i = 0; i < NP; i++) { OI qx = m * sx[i], qy = (REFL ? -1 : 1) * m * sy[i]; ex[i] = qx * C_ - qy * S_ + ax; ey[i] = qx * S_ + qy * C_ + ay; }
    wfac = SCALEW ? iabs(m) : 1; ofac = (REFL ? -1 : 1) * iabs(m); xfac = iabs(m); }
#elif OP == 4
  { OI dx = (OI)nd_range(-1, 1), dy = (OI)nd_range(-1, 1); OI n2 = dx * dx + dy * dy;
    _ZN5gdstk8FlexPath6mirrorENS_4Vec2ES1_(&path, NUM_OF_INT(ax), NUM_OF_INT(ay), NUM_OF_INT(ax + dx), NUM_OF_INT(ay + dy));
    for (int i = 0; i < NP; i++) { if (n2 == 0) { ex[i] = sx[i]; ey[i] = sy[i]; } else { OI t = ((sx[i] - ax) * dx + (sy[i] - ay) * dy) * (2 / n2); ex[i] = ax + t * dx - (sx[i] - ax); ey[i] = ay + t * dy - (sy[i] - ay); } }
    ofac = n2 == 0 ? 1 : -1; }
#endif
  for (int i = 0; i < NP; i++) { OBS("x", NUM_TO_I64(sp[2 * i])); OBS("y", NUM_TO_I64(sp[2 * i + 1]));
    CHECK(NUM_EQ(sp[2 * i], NUM_OF_INT(ex[i])) && NUM_EQ(sp[2 * i + 1], NUM_OF_INT(ey[i])), "spine point image equals the affine map's image"); }
  for (int e = 0; e < NE; e++) { for (int i = 0; i < NP; i++) { OBS("hw", NUM_TO_I64(wo[e][2 * i])); OBS("of", NUM_TO_I64(wo[e][2 * i + 1]));
      CHECK(NUM_EQ(wo[e][2 * i], NUM_OF_INT(hw[e][i] * wfac)), "half-width scaled by |factor| iff scale_width, never negative");
      CHECK(NUM_EQ(wo[e][2 * i + 1], NUM_OF_INT(of[e][i] * ofac)), "offset scaled by |factor|, negated exactly under a reflection"); }
    OBS("e0", NUM_TO_I64(VX(el[e].f6)));
    CHECK(NUM_EQ(VX(el[e].f6), NUM_OF_INT(e0[e] * xfac)) && NUM_EQ(VY(el[e].f6), NUM_OF_INT(e1[e] * xfac)), "end extensions (lengths) scaled by |factor|"); }
  WITNESS_POINT();
  return 0;
}
