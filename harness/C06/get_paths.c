/* C06: Cell::get_flexpaths / get_robustpaths / get_labels through a reference (and, with DIRECT, on the cell itself): the
   elements returned are fresh copies of the child's elements mapped by the reference's magnification, reflection, rotation and
   translation; a tag filter keeps exactly the path elements (labels) carrying that tag, in order, with every other field of the
   path kept. Integer-exact model, cos/sin free symbols. The field-level laws of the element transforms themselves are C10. */
#include "harness.h"
uint64_t my_strlen1(uint8_t* s);
#include "prologue.h"
#define REP_MAXOFF 5
#include "C11/rep.h"
#include "C10/common.h"
#include "ie_nolibm.h"
typedef struct S_struct_gdstk__Cell Cell;
typedef struct S_struct_gdstk__Reference Ref;
typedef struct S_struct_gdstk__RobustPath RPath;
typedef struct S_struct_gdstk__RobustPathElement RElem;
typedef struct S_struct_gdstk__FlexPath FPath;
typedef struct S_struct_gdstk__FlexPathElement FElem;
typedef struct S_struct_gdstk__Label Label;
#define GET_F _ZNK5gdstk4Cell13get_flexpathsEblbmRNS_5ArrayIPNS_8FlexPathEEE
#define GET_R _ZNK5gdstk4Cell15get_robustpathsEblbmRNS_5ArrayIPNS_10RobustPathEEE
#define GET_L _ZNK5gdstk4Cell10get_labelsEblbmRNS_5ArrayIPNS_5LabelEEE
typedef ARGT__ZNK5gdstk4Cell13get_flexpathsEblbmRNS_5ArrayIPNS_8FlexPathEEE_5 FArr;
typedef ARGT__ZNK5gdstk4Cell15get_robustpathsEblbmRNS_5ArrayIPNS_10RobustPathEEE_5 RArr;
typedef ARGT__ZNK5gdstk4Cell10get_labelsEblbmRNS_5ArrayIPNS_5LabelEEE_5 LArr;
#define RR 2
#define TAG_A 0x0000000300000007ULL
#define TAG_B 0x0000000500000002ULL
#define TAG_C 0x0000000900000001ULL
uint64_t my_strlen1(uint8_t* s) { __CPROVER_assert(s[0] != 0 && s[1] == 0, "harness strings are 1 character"); return 1; }
static OI iabs(OI a) { return a < 0 ? -a : a; }
int main(void) {
  /* FILTER: 0 none, 1 first element's tag, 2 second element's tag, 3 a tag nobody carries (tags concrete: what matches decides how much is allocated) */
  uint64_t qtag = FILTER == 1 ? TAG_A : FILTER == 2 ? TAG_B : TAG_C;
  int keep0 = FILTER == 0 || FILTER == 1, keep1 = FILTER == 0 || FILTER == 2, nkeep = keep0 + keep1;
  OI ox = (OI)nd_range(-RR, RR), oy = (OI)nd_range(-RR, RR), m = (OI)nd_range(-2, 2); OI r = REFL ? -1 : 1;
  Cell leaf = {0}; uint8_t ln[2] = {'L', 0}; leaf.f0 = ln;
  Ref ref = {0}; ref.f0 = 0; *(Cell**)&ref.f1 = &leaf; VX(ref.f2) = NUM_OF_INT(ox); VY(ref.f2) = NUM_OF_INT(oy); ref.f4 = NUM_OF_INT(m); ref.f5 = REFL; ref.f3 = pick_rotation(ROT0);
  Cell top = {0}; uint8_t tn[2] = {'T', 0}; top.f0 = tn; Ref* ra[1] = {&ref}; top.f2.f0 = 1; top.f2.f1 = 1; top.f2.f2 = (void*)ra;
#if DIRECT      /* query the leaf itself: identity map */
  m = 1; r = 1; ox = 0; oy = 0; C_ = 1; S_ = 0;
#define QCELL (&leaf)
#else
#define QCELL (&top)
#endif
#if KIND == 0   /* robust path: two elements, arbitrary accumulated transform state */
  RPath p = {0}; OI t[6], ws = (OI)nd_range(1, 2), os = (OI)nd_range(-2, 2), epx = (OI)nd_range(-RR, RR), epy = (OI)nd_range(-RR, RR), tol = (OI)nd_range(1, 3); uint64_t me = nd_u64();
  for (int i = 0; i < 6; i++) { t[i] = (OI)nd_range(-RR, RR); p.f8.a[i] = NUM_OF_INT(t[i]); }
  VX(p.f0) = NUM_OF_INT(epx); VY(p.f0) = NUM_OF_INT(epy); p.f4 = NUM_OF_INT(tol); p.f5 = me; p.f6 = NUM_OF_INT(ws); p.f7 = NUM_OF_INT(os); p.f9 = nd_bool(); p.f10 = SCALEW;
  uint8_t simple = p.f9;
  RElem* el = malloc(sizeof(RElem) * 2); memset(el, 0, sizeof(RElem) * 2); OI ew[2], eo[2], e0[2], e1[2]; uint32_t et[2];
  for (int e = 0; e < 2; e++) { el[e].f0 = e ? TAG_B : TAG_A; ew[e] = (OI)nd_range(0, 3); eo[e] = (OI)nd_range(-3, 3); e0[e] = (OI)nd_range(0, 3); e1[e] = (OI)nd_range(0, 3); et[e] = (uint32_t)nd_range(0, 4);
    el[e].f3 = NUM_OF_INT(ew[e]); el[e].f4 = NUM_OF_INT(eo[e]); el[e].f5 = et[e]; VX(el[e].f6) = NUM_OF_INT(e0[e]); VY(el[e].f6) = NUM_OF_INT(e1[e]); }
  p.f2 = el; p.f3 = 2;
  RPath* pa[1] = {&p}; leaf.f4.f0 = 1; leaf.f4.f1 = 1; leaf.f4.f2 = (void*)pa;
  RArr res = {0};
  GET_R(QCELL, 0, (uint64_t)(int64_t)-1, FILTER != 0, qtag, &res);
  OBS("n", res.f1);
  CHECK(res.f1 == (uint64_t)(nkeep ? 1 : 0), "a path is returned iff one of its elements carries the tag (no filter: always)");
  if (res.f1 == 1) { RPath* q = ((RPath**)res.f2)[0];
    CHECK(q != &p && q->f2 != el, "fresh copy");
    CHECK(q->f3 == (uint64_t)nkeep, "exactly the elements with the tag");
    /* the reference's map composed after the path's prior state (C10 robustpath_algebra: transform) */
    OI a = C_ * m, b = -S_ * m * r, c = S_ * m, d = C_ * m * r;
    OI ex[6] = { a * t[0] + b * t[3], a * t[1] + b * t[4], a * t[2] + b * t[5] + ox, c * t[0] + d * t[3], c * t[1] + d * t[4], c * t[2] + d * t[5] + oy };
    for (int i = 0; i < 6; i++) { OBS("t", NUM_TO_I64(q->f8.a[i])); CHECK(NUM_EQ(q->f8.a[i], NUM_OF_INT(ex[i])), "trafo == (reference map) o (the path's own trafo)"); }
    OBS("ws", NUM_TO_I64(q->f6)); OBS("os", NUM_TO_I64(q->f7));
    CHECK(NUM_EQ(q->f6, NUM_OF_INT(ws * (SCALEW ? iabs(m) : 1))), "width_scale: the path's own, x|m| iff scale_width");
    CHECK(NUM_EQ(q->f7, NUM_OF_INT(os * r * iabs(m))), "offset_scale: the path's own, x|m|, negated by the reference's reflection");
    CHECK(NUM_EQ(VX(q->f0), NUM_OF_INT(epx)) && NUM_EQ(VY(q->f0), NUM_OF_INT(epy)) && NUM_EQ(q->f4, NUM_OF_INT(tol)) && q->f5 == me && (q->f9 & 1) == (simple & 1) && (q->f10 & 1) == SCALEW, "end point, tolerance, max_evals, simple_path, scale_width kept");
    for (int k = 0; k < 2; k++) if ((uint64_t)k < q->f3) { int e = (k == 0 && keep0) ? 0 : 1; RElem* g = &((RElem*)q->f2)[k];
      CHECK(g->f0 == el[e].f0 && g->f5 == et[e] && NUM_EQ(g->f3, NUM_OF_INT(ew[e])) && NUM_EQ(g->f4, NUM_OF_INT(eo[e])), "element tag, end type, end width, end offset kept, in order");
      CHECK(NUM_EQ(VX(g->f6), NUM_OF_INT(e0[e] * iabs(m))) && NUM_EQ(VY(g->f6), NUM_OF_INT(e1[e] * iabs(m))), "end extensions x|m|"); } }
  CHECK(NUM_EQ(p.f7, NUM_OF_INT(os)) && NUM_EQ(p.f6, NUM_OF_INT(ws)) && NUM_EQ(p.f8.a[2], NUM_OF_INT(t[2])) && p.f3 == 2 && leaf.f4.f1 == 1, "the queried path is untouched");
#elif KIND == 1 /* flexible path: two elements, two spine points */
  FPath p = {0}; OI sx[2], sy[2], hw[2][2], of[2][2], e0[2], e1[2]; uint32_t jt[2], et[2], bt[2]; OI br[2];
  NUM* sp = malloc(sizeof(NUM) * 4);
  for (int i = 0; i < 2; i++) { sx[i] = (OI)nd_range(-RR, RR); sy[i] = (OI)nd_range(-RR, RR); sp[2 * i] = NUM_OF_INT(sx[i]); sp[2 * i + 1] = NUM_OF_INT(sy[i]); }
  p.f0.f0.f0 = 2; p.f0.f0.f1 = 2; p.f0.f0.f2 = (void*)sp; p.f0.f1 = NUM_OF_INT(1);
  FElem* el = malloc(sizeof(FElem) * 2); memset(el, 0, sizeof(FElem) * 2); NUM* wo[2];
  for (int e = 0; e < 2; e++) { wo[e] = malloc(sizeof(NUM) * 4); el[e].f0 = e ? TAG_B : TAG_A;
    for (int i = 0; i < 2; i++) { hw[e][i] = (OI)nd_range(0, 3); of[e][i] = (OI)nd_range(-3, 3); wo[e][2 * i] = NUM_OF_INT(hw[e][i]); wo[e][2 * i + 1] = NUM_OF_INT(of[e][i]); }
    el[e].f1.f0 = 2; el[e].f1.f1 = 2; el[e].f1.f2 = (void*)wo[e];
    jt[e] = (uint32_t)nd_range(0, 4); et[e] = (uint32_t)nd_range(0, 4); bt[e] = (uint32_t)nd_range(0, 1); br[e] = (OI)nd_range(0, 3);
    el[e].f2 = jt[e]; el[e].f5 = et[e]; el[e].f9 = bt[e]; el[e].f10 = NUM_OF_INT(br[e]);
    e0[e] = (OI)nd_range(0, 3); e1[e] = (OI)nd_range(0, 3); VX(el[e].f6) = NUM_OF_INT(e0[e]); VY(el[e].f6) = NUM_OF_INT(e1[e]); }
  p.f1 = el; p.f2 = 2; p.f3 = nd_bool(); p.f4 = SCALEW; uint8_t simple = p.f3;
  FPath* pa[1] = {&p}; leaf.f3.f0 = 1; leaf.f3.f1 = 1; leaf.f3.f2 = (void*)pa;
  FArr res = {0};
  GET_F(QCELL, 0, (uint64_t)(int64_t)-1, FILTER != 0, qtag, &res);
  OBS("n", res.f1);
  CHECK(res.f1 == (uint64_t)(nkeep ? 1 : 0), "a path is returned iff one of its elements carries the tag (no filter: always)");
  if (res.f1 == 1) { FPath* q = ((FPath**)res.f2)[0];
    CHECK(q != &p && q->f1 != el && q->f0.f0.f2 != (void*)sp, "fresh copy");
    CHECK(q->f2 == (uint64_t)nkeep && q->f0.f0.f1 == 2, "exactly the elements with the tag; the whole spine");
    NUM* qs = (NUM*)q->f0.f0.f2;
    for (int i = 0; i < 2; i++) { OI qx = m * sx[i], qy = r * m * sy[i]; OBS("x", NUM_TO_I64(qs[2 * i])); OBS("y", NUM_TO_I64(qs[2 * i + 1]));
      CHECK(NUM_EQ(qs[2 * i], NUM_OF_INT(qx * C_ - qy * S_ + ox)) && NUM_EQ(qs[2 * i + 1], NUM_OF_INT(qx * S_ + qy * C_ + oy)), "spine mapped by the reference"); }
    CHECK((q->f3 & 1) == (simple & 1) && (q->f4 & 1) == SCALEW, "simple_path, scale_width kept");
    for (int k = 0; k < 2; k++) if ((uint64_t)k < q->f2) { int e = (k == 0 && keep0) ? 0 : 1; FElem* g = &((FElem*)q->f1)[k]; NUM* gw = (NUM*)g->f1.f2;
      CHECK(g->f0 == el[e].f0 && g->f2 == jt[e] && g->f5 == et[e] && g->f9 == bt[e] && NUM_EQ(g->f10, NUM_OF_INT(br[e])) && g->f1.f1 == 2 && gw != wo[e], "element tag, join / end / bend settings kept, in order; own width array");
      for (int i = 0; i < 2; i++) { OBS("hw", NUM_TO_I64(gw[2 * i])); OBS("of", NUM_TO_I64(gw[2 * i + 1]));
        CHECK(NUM_EQ(gw[2 * i], NUM_OF_INT(hw[e][i] * (SCALEW ? iabs(m) : 1))) && NUM_EQ(gw[2 * i + 1], NUM_OF_INT(of[e][i] * r * iabs(m))), "half-widths x|m| iff scale_width; offsets x|m|, negated by the reflection"); }
      CHECK(NUM_EQ(VX(g->f6), NUM_OF_INT(e0[e] * iabs(m))) && NUM_EQ(VY(g->f6), NUM_OF_INT(e1[e] * iabs(m))), "end extensions x|m|"); } }
  CHECK(NUM_EQ(sp[0], NUM_OF_INT(sx[0])) && NUM_EQ(wo[1][3], NUM_OF_INT(of[1][1])) && p.f2 == 2 && leaf.f3.f1 == 1, "the queried path is untouched");
#elif KIND == 2 /* two labels */
  Label lb[2]; memset(lb, 0, sizeof(lb)); uint8_t txt[2][2] = {{'a', 0}, {'b', 0}}; OI lx[2], ly[2], lm[2], lr[2]; uint32_t an[2]; uint8_t lf[2];
  for (int e = 0; e < 2; e++) { lb[e].f0 = e ? TAG_B : TAG_A; lb[e].f1 = txt[e]; lx[e] = (OI)nd_range(-RR, RR); ly[e] = (OI)nd_range(-RR, RR); lm[e] = (OI)nd_range(-2, 2); lr[e] = (OI)nd_range(-2, 2); an[e] = (uint32_t)nd_range(0, 10); lf[e] = nd_bool();
    VX(lb[e].f2) = NUM_OF_INT(lx[e]); VY(lb[e].f2) = NUM_OF_INT(ly[e]); lb[e].f3 = an[e]; lb[e].f4 = NUM_OF_INT(lr[e]); lb[e].f5 = NUM_OF_INT(lm[e]); lb[e].f6 = lf[e]; }
  Label* pa[2] = {&lb[0], &lb[1]}; leaf.f5.f0 = 2; leaf.f5.f1 = 2; leaf.f5.f2 = (void*)pa;
  LArr res = {0};
  GET_L(QCELL, 0, (uint64_t)(int64_t)-1, FILTER != 0, qtag, &res);
  OBS("n", res.f1);
  CHECK(res.f1 == (uint64_t)nkeep, "exactly the labels with the tag (no filter: all)");
  for (int k = 0; k < 2; k++) if ((uint64_t)k < res.f1) { int e = (k == 0 && keep0) ? 0 : 1; Label* q = ((Label**)res.f2)[k];
    CHECK(q != &lb[e] && q->f1 != txt[e] && q->f1[0] == txt[e][0] && q->f1[1] == 0 && q->f0 == lb[e].f0 && q->f3 == an[e], "fresh copy with its own text; tag and anchor kept, in order");
    OI qx = m * lx[e], qy = r * m * ly[e]; OBS("x", NUM_TO_I64(VX(q->f2))); OBS("y", NUM_TO_I64(VY(q->f2)));
    CHECK(NUM_EQ(VX(q->f2), NUM_OF_INT(qx * C_ - qy * S_ + ox)) && NUM_EQ(VY(q->f2), NUM_OF_INT(qx * S_ + qy * C_ + oy)), "origin mapped by the reference");
    CHECK(NUM_EQ(q->f5, NUM_OF_INT(lm[e] * m)) && (q->f6 & 1) == ((lf[e] & 1) ^ (DIRECT ? 0 : REFL)), "magnifications multiply, reflections xor"); }
  CHECK(NUM_EQ(VX(lb[0].f2), NUM_OF_INT(lx[0])) && leaf.f5.f1 == 2, "the queried labels are untouched");
#endif
  WITNESS_POINT();
  return 0;
}
