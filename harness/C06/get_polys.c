/* C06: Cell::get_polygons through a reference: the shapes returned - with repetitions applied or left attached - denote exactly
   the child's shapes mapped by the reference's magnification, reflection, rotation, translation and every repetition offset
   (of the reference and of the element), i.e. the hand-composed affine maps; depth limits and tag filters cut exactly;
   returned polygons are fresh copies. Integer-exact model, cos/sin free symbols. */
#include "prologue.h"
#define REP_MAXOFF 5
#include "C11/rep.h"
#include "C10/common.h"
#include "ie_nolibm.h"
typedef struct S_struct_gdstk__Polygon Poly;
typedef struct S_struct_gdstk__Cell Cell;
typedef struct S_struct_gdstk__Reference Ref;
typedef ARGT__ZNK5gdstk4Cell12get_polygonsEbblbmRNS_5ArrayIPNS_7PolygonEEE_6 PArr;
typedef ARGT__ZNK5gdstk10Repetition11get_offsetsERNS_5ArrayINS_4Vec2EEE_1 VArr;
#define RR 2
int main(void) {
  /* leaf cell: one 1-vertex polygon (a transform acts vertex-wise), optional 2x1 rectangular element repetition */
  OI vx = (OI)nd_range(-RR, RR), vy = (OI)nd_range(-RR, RR);
  uint64_t tag = FILTER ? 0x0000000300000007ULL : nd_u64();     /* with a filter the tags are concrete: whether a shape matches decides how many are appended (shape rule) */
  NUM* pts = malloc(sizeof(NUM) * 2); pts[0] = NUM_OF_INT(vx); pts[1] = NUM_OF_INT(vy);
  Poly poly = {0}; poly.f0 = tag; poly.f1.f0 = 1; poly.f1.f1 = 1; poly.f1.f2 = (void*)pts;
  OI eox[2] = {0, 0}, eoy[2] = {0, 0}; int ne = 1;
#if EREP
  rep_build(&poly.f2, 1, 2, 1, RR); ne = 2; eox[1] = (OI)rep_ex[1]; eoy[1] = (OI)rep_ey[1];
#endif
#if TWO        /* a second polygon in the leaf, with another tag: a tag filter keeps exactly the matching one; without a filter both come back, each with its own tag and vertices */
  OI vx2 = (OI)nd_range(-RR, RR), vy2 = (OI)nd_range(-RR, RR); NUM* pts2 = malloc(sizeof(NUM) * 2); pts2[0] = NUM_OF_INT(vx2); pts2[1] = NUM_OF_INT(vy2);
  Poly poly2 = {0}; poly2.f0 = tag ^ 1; poly2.f1.f0 = 1; poly2.f1.f1 = 1; poly2.f1.f2 = (void*)pts2;
  Cell leaf = {0}; uint8_t ln[2] = {'L', 0}; leaf.f0 = ln; Poly* pa[2] = {&poly, &poly2}; leaf.f1.f0 = 2; leaf.f1.f1 = 2; leaf.f1.f2 = (void*)pa;
#else
  Cell leaf = {0}; uint8_t ln[2] = {'L', 0}; leaf.f0 = ln; Poly* pa[1] = {&poly}; leaf.f1.f0 = 1; leaf.f1.f1 = 1; leaf.f1.f2 = (void*)pa;
#endif
  /* top cell: one reference to it */
  Ref ref = {0}; ref.f0 = 0; *(Cell**)&ref.f1 = &leaf;
  OI ox = (OI)nd_range(-RR, RR), oy = (OI)nd_range(-RR, RR), m = (OI)nd_range(-2, 2);
  VX(ref.f2) = NUM_OF_INT(ox); VY(ref.f2) = NUM_OF_INT(oy); ref.f4 = NUM_OF_INT(m); ref.f5 = REFL; ref.f3 = pick_rotation(ROT0);
  OI rox[2] = {0, 0}, roy[2] = {0, 0}; int nr = 1;
#if RREP
  rep_build(&ref.f6, 1, 1, 2, RR); nr = 2; rox[1] = (OI)rep_ex[1]; roy[1] = (OI)rep_ey[1];
#endif
  Cell top = {0}; uint8_t tn[2] = {'T', 0}; top.f0 = tn; Ref* ra[1] = {&ref}; top.f2.f0 = 1; top.f2.f1 = 1; top.f2.f2 = (void*)ra;
  uint64_t qtag = FILTER == 2 ? tag ^ 1 : tag;          /* FILTER: 0 none, 1 matching tag, 2 other tag */
  PArr res = {0};
#if FLAT
  /* Cell::flatten: afterwards the cell's OWN polygons are what the full-depth query returned, the cell reference has moved to the result list */
  { ARGT__ZN5gdstk4Cell7flattenEbRNS_5ArrayIPNS_9ReferenceEEE_2 removed = {0};
    _ZN5gdstk4Cell7flattenEbRNS_5ArrayIPNS_9ReferenceEEE(&top, APPLY, &removed);
    CHECK(top.f2.f1 == 0 && removed.f1 == 1 && ((Ref**)removed.f2)[0] == &ref, "the cell reference is removed from the cell and handed back");
    CHECK(top.f3.f1 == 0 && top.f4.f1 == 0 && top.f5.f1 == 0, "no paths or labels appear from nowhere");
    res.f0 = top.f1.f0; res.f1 = top.f1.f1; res.f2 = (void*)top.f1.f2; top.f2.f1 = 1; }
#else
  _ZNK5gdstk4Cell12get_polygonsEbblbmRNS_5ArrayIPNS_7PolygonEEE(&top, APPLY, 0, (uint64_t)(int64_t)DEPTH, FILTER != 0, qtag, &res);
#endif
#if TWO
  /* two polygons, no repetitions: the result is the matching subset, each polygon with its own tag at the image of its own vertex */
  { OI r = REFL ? -1 : 1; int want1 = FILTER != 2, want2 = FILTER != 1; int got1 = 0, got2 = 0;
    OBS("n", res.f1);
    CHECK(res.f1 == (uint64_t)(want1 + want2), "exactly the polygons with the requested tag (no filter: both)");
    for (int i = 0; i < 2; i++) if ((uint64_t)i < res.f1) { Poly* p = ((Poly**)res.f2)[i]; NUM* q = (NUM*)p->f1.f2;
      CHECK(p != &poly && p != &poly2 && p->f1.f1 == 1 && p->f2.f0 == 0, "fresh copies");
      int is1 = p->f0 == tag; OI sx_ = is1 ? vx : vx2, sy_ = is1 ? vy : vy2; OI qx = m * sx_, qy = r * m * sy_;
      CHECK(p->f0 == tag || p->f0 == (tag ^ 1), "a tag of the leaf");
      CHECK(NUM_EQ(q[0], NUM_OF_INT(qx * C_ - qy * S_ + ox)) && NUM_EQ(q[1], NUM_OF_INT(qx * S_ + qy * C_ + oy)), "each polygon at the image of its own vertex");
      if (is1) got1++; else got2++; }
    CHECK(got1 == want1 && got2 == want2, "one copy of each requested polygon");
    CHECK(NUM_EQ(pts[0], NUM_OF_INT(vx)) && NUM_EQ(pts2[0], NUM_OF_INT(vx2)) && leaf.f1.f1 == 2, "the queried cells are untouched"); }
#else
  /* denotation of the result: every polygon expanded by whatever repetition it still carries */
  OI gx[8], gy[8]; int ng = 0;
  for (int i = 0; i < 4; i++) if ((uint64_t)i < res.f1) { Poly* p = ((Poly**)res.f2)[i];
    CHECK(p != &poly && p->f1.f2 != (void*)pts && p->f1.f1 == 1, "returned polygons are fresh copies");
    CHECK(p->f0 == tag, "tag kept");
    NUM* q = (NUM*)p->f1.f2; OI bx = (OI)NUM_TO_I64(q[0]), by = (OI)NUM_TO_I64(q[1]);
    if (p->f2.f0 == 0) { CHECK(ng < 8, "result size"); gx[ng] = bx; gy[ng] = by; ng++; }
    else { CHECK(!APPLY, "with repetitions applied nothing carries a repetition any more");
      VArr off = {0}; _ZNK5gdstk10Repetition11get_offsetsERNS_5ArrayINS_4Vec2EEE(&p->f2, &off); NUM* o = (NUM*)off.f2;
      for (int k = 0; k < 3; k++) if ((uint64_t)k < off.f1) { CHECK(ng < 8, "result size"); gx[ng] = bx + (OI)NUM_TO_I64(o[2 * k]); gy[ng] = by + (OI)NUM_TO_I64(o[2 * k + 1]); ng++; } } }
  /* oracle: hand-composed maps */
  OI wx[4], wy[4]; int nw = 0; OI r = REFL ? -1 : 1;
  if (DEPTH != 0 && FILTER != 2) for (int a = 0; a < nr; a++) for (int b = 0; b < ne; b++) {
    OI px = vx + eox[b], py = vy + eoy[b]; OI qx = m * px, qy = r * m * py;
    wx[nw] = qx * C_ - qy * S_ + ox + rox[a]; wy[nw] = qx * S_ + qy * C_ + oy + roy[a]; nw++; }
  OBS("n", ng);
  CHECK(ng == nw, "number of shapes denoted (depth limit and tag filter cut exactly)");
  for (int i = 0; i < 4; i++) if (i < nw) { int want = 0, have = 0; for (int j = 0; j < 4; j++) { if (j < nw && wx[j] == wx[i] && wy[j] == wy[i]) want++; if (j < ng && gx[j] == wx[i] && gy[j] == wy[i]) have++; }
    CHECK(want == have, "the shapes returned are exactly the child's shapes under the composed affine maps and all repetition offsets"); }
  CHECK(NUM_EQ(pts[0], NUM_OF_INT(vx)) && NUM_EQ(pts[1], NUM_OF_INT(vy)) && leaf.f1.f1 == 1 && top.f2.f1 == 1, "the queried cells are untouched");
#endif
  WITNESS_POINT();
  return 0;
}
