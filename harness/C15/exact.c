/* C15 (exact sub-class): straight curve sections and exact primitives. Curve::horizontal / vertical / segment (single and array
   forms, relative and absolute) start at the current end point, only append, end exactly at the requested point and record the
   previous point as the last control point; rectangle() and cross() have exactly the documented vertices.
   Integer-exact model (every operation asserted exact). */
#include "prologue.h"
#include "C10/common.h"
typedef struct S_struct_gdstk__Curve Curve;
#define RR 5
int main(void) {
  OI sx[2], sy[2]; NUM* sp = malloc(sizeof(NUM) * 4); for (int i = 0; i < 2; i++) { sx[i] = (OI)nd_range(-RR, RR); sy[i] = (OI)nd_range(-RR, RR); sp[2 * i] = NUM_OF_INT(sx[i]); sp[2 * i + 1] = NUM_OF_INT(sy[i]); }
  Curve c = {0}; c.f0.f0 = 2; c.f0.f1 = 2; c.f0.f2 = (void*)sp; c.f1 = NUM_OF_INT(1);
  OI a = (OI)nd_range(-RR, RR), b = (OI)nd_range(-RR, RR), a2 = (OI)nd_range(-RR, RR), b2 = (OI)nd_range(-RR, RR);
  OI ex[2], ey[2]; int n = 1; OI lx = sx[1], ly = sy[1];      /* expected appended points; expected last control point */
#if OP == 0
  _ZN5gdstk5Curve10horizontalEdb(&c, NUM_OF_INT(a), REL); ex[0] = REL ? sx[1] + a : a; ey[0] = sy[1];
#elif OP == 1
  _ZN5gdstk5Curve8verticalEdb(&c, NUM_OF_INT(a), REL); ex[0] = sx[1]; ey[0] = REL ? sy[1] + a : a;
#elif OP == 2
  _ZN5gdstk5Curve7segmentENS_4Vec2Eb(&c, NUM_OF_INT(a), NUM_OF_INT(b), REL); ex[0] = REL ? sx[1] + a : a; ey[0] = REL ? sy[1] + b : b;
#elif OP == 3
  { NUM pts[4] = {NUM_OF_INT(a), NUM_OF_INT(b), NUM_OF_INT(a2), NUM_OF_INT(b2)}; ARGT__ZN5gdstk5Curve7segmentENS_5ArrayINS_4Vec2EEEb_1 arr; arr.f0 = 2; arr.f1 = 2; arr.f2 = (void*)pts;
    _ZN5gdstk5Curve7segmentENS_5ArrayINS_4Vec2EEEb(&c, BYVAL(arr), REL); n = 2;
    ex[0] = REL ? sx[1] + a : a; ey[0] = REL ? sy[1] + b : b; ex[1] = REL ? sx[1] + a2 : a2; ey[1] = REL ? sy[1] + b2 : b2; lx = ex[0]; ly = ey[0]; }
#elif OP == 4
  { NUM xs[2] = {NUM_OF_INT(a), NUM_OF_INT(a2)}; ARGT__ZN5gdstk5Curve10horizontalENS_5ArrayIdEEb_1 arr; arr.f0 = 2; arr.f1 = 2; arr.f2 = (void*)xs;
    _ZN5gdstk5Curve10horizontalENS_5ArrayIdEEb(&c, BYVAL(arr), REL); n = 2;
    ex[0] = REL ? sx[1] + a : a; ey[0] = sy[1]; ex[1] = REL ? sx[1] + a2 : a2; ey[1] = sy[1]; lx = ex[0]; ly = ey[0]; }
#elif OP == 5      /* rectangle(corner1, corner2, tag) */
  { struct S_struct_gdstk__Polygon p = {0}; uint64_t tag = nd_u64();
    _ZN5gdstk9rectangleENS_4Vec2ES0_m(&p, NUM_OF_INT(a), NUM_OF_INT(b), NUM_OF_INT(a2), NUM_OF_INT(b2), tag); NUM* q = (NUM*)p.f1.f2;
    CHECK(p.f0 == tag && p.f1.f1 == 4, "tag, four vertices");
    CHECK(NUM_EQ(q[0], NUM_OF_INT(a)) && NUM_EQ(q[1], NUM_OF_INT(b)) && NUM_EQ(q[2], NUM_OF_INT(a2)) && NUM_EQ(q[3], NUM_OF_INT(b)) && NUM_EQ(q[4], NUM_OF_INT(a2)) && NUM_EQ(q[5], NUM_OF_INT(b2)) && NUM_EQ(q[6], NUM_OF_INT(a)) && NUM_EQ(q[7], NUM_OF_INT(b2)), "corner1, (x2,y1), corner2, (x1,y2)");
    n = 0; }
#elif OP == 6      /* cross(center, full_size, arm_width, tag), even sizes */
  { struct S_struct_gdstk__Polygon p = {0}; OI L = (OI)nd_range(0, RR), W = (OI)nd_range(0, RR);
    _ZN5gdstk5crossENS_4Vec2Eddm(&p, NUM_OF_INT(a), NUM_OF_INT(b), NUM_OF_INT(2 * L), NUM_OF_INT(2 * W), 7); NUM* q = (NUM*)p.f1.f2;
    static const int SX[12] = {2, 1, 1, -1, -1, -2, -2, -1, -1, 1, 1, 2}, SY[12] = {1, 1, 2, 2, 1, 1, -1, -1, -2, -2, -1, -1};      /* 2 = +-half length, 1 = +-half arm width */
    CHECK(p.f1.f1 == 12, "twelve vertices");
    for (int i = 0; i < 12; i++) { OI wx = a + (SX[i] == 2 ? L : SX[i] == -2 ? -L : SX[i] * W), wy = b + (SY[i] == 2 ? L : SY[i] == -2 ? -L : SY[i] * W);
      CHECK(NUM_EQ(q[2 * i], NUM_OF_INT(wx)) && NUM_EQ(q[2 * i + 1], NUM_OF_INT(wy)), "cross outline, counter-clockwise from the right arm"); }
    n = 0; }
#endif
  if (n > 0) { NUM* q = (NUM*)c.f0.f2;
    CHECK(c.f0.f1 == (uint64_t)(2 + n), "only appends");
    for (int i = 0; i < 2; i++) CHECK(NUM_EQ(q[2 * i], NUM_OF_INT(sx[i])) && NUM_EQ(q[2 * i + 1], NUM_OF_INT(sy[i])), "existing vertices untouched: the section starts at the current end point");
    for (int i = 0; i < n; i++) { OBS("x", NUM_TO_I64(q[2 * (2 + i)])); CHECK(NUM_EQ(q[2 * (2 + i)], NUM_OF_INT(ex[i])) && NUM_EQ(q[2 * (2 + i) + 1], NUM_OF_INT(ey[i])), "appended vertices: exactly the requested points (relative to the previous end point when relative)"); }
    CHECK(NUM_EQ(VX(c.f2), NUM_OF_INT(lx)) && NUM_EQ(VY(c.f2), NUM_OF_INT(ly)), "last control point = the vertex before the new end point"); }
  WITNESS_POINT();
  return 0;
}
