/* Reference geometry of the OASIS shape records, written from the record definitions (not from gdstk):
   RECTANGLE, TRAPEZOID (delta-a / delta-b, horizontal or vertical) and the 26 CTRAPEZOID types. Vertices are
   offsets from the record's (x, y) = lower-left corner of the bounding box; counts are 3 or 4. */
#ifndef VERIF_OAS_REF_H
#define VERIF_OAS_REF_H
static int64_t ref_max0(int64_t a) { return a > 0 ? a : 0; }
static int64_t ref_min0(int64_t a) { return a < 0 ? a : 0; }
/* TRAPEZOID: vertical == 0: the parallel sides are horizontal, delta-a = x(upper-left) - x(lower-left), delta-b = x(upper-right) - x(lower-right);
   vertical == 1: the parallel sides are vertical, delta-a = y(lower-left) - y(lower-right), delta-b = y(upper-left) - y(upper-right) */
static int ref_trapezoid(int vertical, int64_t w, int64_t h, int64_t da, int64_t db, int64_t* vx, int64_t* vy) {
  if (vertical) { vx[0] = 0; vy[0] = ref_max0(da); vx[1] = 0; vy[1] = h + ref_min0(db); vx[2] = w; vy[2] = h - ref_max0(db); vx[3] = w; vy[3] = -ref_min0(da); }
  else { vx[0] = ref_max0(da); vy[0] = h; vx[1] = w + ref_min0(db); vy[1] = h; vx[2] = w - ref_max0(db); vy[2] = 0; vx[3] = -ref_min0(da); vy[3] = 0; }
  return 4; }
/* CTRAPEZOID type 0..25; w and h as the record defines them for the type (types 16..19, 22, 23, 25 have no h; 20, 21 no w) */
static int ref_ctrapezoid(unsigned type, int64_t w, int64_t h, int64_t* vx, int64_t* vy) {
#define P4(x0, y0, x1, y1, x2, y2, x3, y3) do { vx[0] = x0; vy[0] = y0; vx[1] = x1; vy[1] = y1; vx[2] = x2; vy[2] = y2; vx[3] = x3; vy[3] = y3; return 4; } while (0)
#define P3(x0, y0, x1, y1, x2, y2) do { vx[0] = x0; vy[0] = y0; vx[1] = x1; vy[1] = y1; vx[2] = x2; vy[2] = y2; return 3; } while (0)
  switch (type) {
    case 0: P4(0, 0, w, 0, w - h, h, 0, h);
    case 1: P4(0, 0, w - h, 0, w, h, 0, h);
    case 2: P4(0, 0, w, 0, w, h, h, h);
    case 3: P4(h, 0, w, 0, w, h, 0, h);
    case 4: P4(0, 0, w, 0, w - h, h, h, h);
    case 5: P4(h, 0, w - h, 0, w, h, 0, h);
    case 6: P4(0, 0, w - h, 0, w, h, h, h);
    case 7: P4(h, 0, w, 0, w - h, h, 0, h);
    case 8: P4(0, 0, w, 0, w, h - w, 0, h);
    case 9: P4(0, 0, w, 0, w, h, 0, h - w);
    case 10: P4(0, 0, w, w, w, h, 0, h);
    case 11: P4(0, w, w, 0, w, h, 0, h);
    case 12: P4(0, 0, w, w, w, h - w, 0, h);
    case 13: P4(0, w, w, 0, w, h, 0, h - w);
    case 14: P4(0, 0, w, w, w, h, 0, h - w);
    case 15: P4(0, w, w, 0, w, h - w, 0, h);
    case 16: P3(0, 0, w, 0, 0, w);
    case 17: P3(0, 0, w, w, 0, w);
    case 18: P3(0, 0, w, 0, w, w);
    case 19: P3(0, w, w, 0, w, w);
    case 20: P3(0, 0, 2 * h, 0, h, h);
    case 21: P3(0, h, h, 0, 2 * h, h);
    case 22: P3(0, 0, w, w, 0, 2 * w);
    case 23: P3(0, w, w, 0, w, 2 * w);
    case 24: P4(0, 0, w, 0, w, h, 0, h);
    default: P4(0, 0, w, 0, w, w, 0, w);      /* 25: square */
  }
#undef P4
#undef P3
}
/* does the cycle (ax, ay)[0..n) equal the cycle (bx, by)[0..n) up to the starting vertex and the direction? */
static int ref_same_cycle(int n, const int64_t* ax, const int64_t* ay, const int64_t* bx, const int64_t* by) {
  for (int s = 0; s < n; s++) for (int dir = 0; dir < 2; dir++) { int all = 1;
    for (int i = 0; i < n; i++) { int k = dir ? (s + n - i) % n : (s + i) % n; if (!(ax[i] == bx[k] && ay[i] == by[k])) all = 0; }
    if (all) return 1; }
  return 0; }
#endif
