/* C16: one library edit or query on an ARBITRARY small library, compared with an abstract graph model kept by the harness.
   Library: NC cells (names: distinct symbolic letters), each with NR references of symbolic kind: by pointer to any of the
   library cells or to one of two cells outside the library, or by name (any letter, possibly dangling), or (OP 4) to a raw cell.
   Because the pre-state is arbitrary, one step covers edit histories of any length over libraries of this size. */
#include "harness.h"
uint64_t my_strlen1(uint8_t* s);
#include "prologue.h"
typedef struct S_struct_gdstk__Cell Cell;
typedef struct S_struct_gdstk__Reference Ref;
typedef struct S_struct_gdstk__RawCell RawCell;
typedef struct S_struct_gdstk__Library Lib;
#define NC 2
#define NR 2
#define NX 2                      /* cells outside the library: X0 (replacement), X1 */
enum { T_CELL = 0, T_RAW = 1, T_NAME = 2 };
static Cell cells[NC + NX]; static uint8_t* cname[NC + NX]; static Ref refs[NC][NR]; static Ref* refp[NC][NR]; static Cell* cellp[NC + 2];
static int rkind[NC][NR], rtgt[NC][NR], rraw[NC][NR]; static uint8_t rname[NC][NR], rname2[NC][NR];       /* abstract designation of every reference */
#ifndef REAL
/* every string in this harness is exactly one character: strlen / copy_string by contract keep allocation sizes concrete */
uint64_t my_strlen1(uint8_t* s) { __CPROVER_assert(s[0] != 0 && s[1] == 0, "harness strings are 1 character"); return 1; }
uint8_t* _ZN5gdstk11copy_stringEPKcPm(uint8_t* s, uint64_t* len) { __CPROVER_assert(s[0] != 0 && s[1] == 0, "harness strings are 1 character"); uint8_t* r = malloc(2); r[0] = s[0]; r[1] = 0; if (len) *len = 2; return r; }
/* Map<Cell*> / Map<RawCell*> by their abstract model (a name-keyed association list; C20 proves the template against it):
   tables filled by a symbolic number of symbolic keys are operation histories, which no query here decides (DESIGN.md 3.3) */
#define AM_MAX 8
struct amodel { void* map; uint8_t key[AM_MAX]; void* val[AM_MAX]; int n; };
static struct amodel AM[2];
static struct amodel* am_of(void* m) { if (AM[0].map == m || AM[0].map == 0) { AM[0].map = m; return &AM[0]; } AM[1].map = m; return &AM[1]; }
static void am_set(void* m, uint8_t* k, void* v, uint64_t* count) { struct amodel* a = am_of(m); __CPROVER_assert(k[0] != 0 && k[1] == 0, "1-character key");
  for (int i = 0; i < AM_MAX; i++) if (i < a->n && a->key[i] == k[0]) { a->val[i] = v; return; }
  __CPROVER_assert(a->n < AM_MAX, "abstract map capacity"); if (a->n < AM_MAX) { a->key[a->n] = k[0]; a->val[a->n] = v; a->n++; (*count)++; } }
static void* am_get(void* m, uint8_t* k) { struct amodel* a = am_of(m); for (int i = 0; i < AM_MAX; i++) if (i < a->n && a->key[i] == k[0]) return a->val[i]; return 0; }
typedef ARGT__ZN5gdstk3MapIPNS_4CellEE3setEPKcS2__0 CMap;
void _ZN5gdstk3MapIPNS_4CellEE3setEPKcS2_(CMap* m, uint8_t* k, Cell* v) { am_set(m, k, v, &m->f1); }
Cell* _ZNK5gdstk3MapIPNS_4CellEE3getEPKc(CMap* m, uint8_t* k) { return (Cell*)am_get(m, k); }
void _ZN5gdstk3MapIPNS_4CellEE6resizeEm(CMap* m, uint64_t n) { m->f0 = n; }
void _ZN5gdstk3MapIPNS_4CellEE5clearEv(CMap* m) { am_of(m)->n = 0; m->f0 = 0; m->f1 = 0; m->f2 = 0; }
typedef ARGT__ZN5gdstk3MapIPNS_7RawCellEE3setEPKcS2__0 RMap;
void _ZN5gdstk3MapIPNS_7RawCellEE3setEPKcS2_(RMap* m, uint8_t* k, RawCell* v) { am_set(m, k, v, &m->f1); }
RawCell* _ZNK5gdstk3MapIPNS_7RawCellEE3getEPKc(RMap* m, uint8_t* k) { return (RawCell*)am_get(m, k); }
void _ZN5gdstk3MapIPNS_7RawCellEE6resizeEm(RMap* m, uint64_t n) { m->f0 = n; }
void _ZN5gdstk3MapIPNS_7RawCellEE5clearEv(RMap* m) { am_of(m)->n = 0; m->f0 = 0; m->f1 = 0; m->f2 = 0; }
#endif
static uint8_t letter(void) { return (uint8_t)nd_range('a', 'e'); }
int main(void) {
  for (int i = 0; i < NC + NX; i++) { Cell z = {0}; cells[i] = z; cname[i] = malloc(2); cname[i][0] = letter(); cname[i][1] = 0; cells[i].f0 = cname[i]; }
  ASSUME(cname[0][0] != cname[1][0]);                       /* names are unique within a library */
  static RawCell raw, raw1; { RawCell z = {0}; raw = z; raw1 = z; } uint8_t* rawname = malloc(2); rawname[0] = letter(); rawname[1] = 0; raw.f0 = rawname;
  uint8_t* rawname1 = malloc(2); rawname1[0] = letter(); rawname1[1] = 0; raw1.f0 = rawname1; ASSUME(rawname1[0] != rawname[0]);
  static RawCell* rawdep[1]; int raw_dep = nd_bool(); rawdep[0] = &raw1; if (raw_dep) { raw.f4.f0 = 1; raw.f4.f1 = 1; raw.f4.f2 = (void*)rawdep; }    /* raw -> raw1 */
  for (int i = 0; i < NC; i++) { for (int j = 0; j < NR; j++) { Ref z = {0}; refs[i][j] = z; refp[i][j] = &refs[i][j];
      rkind[i][j] = (int)nd_range(0, RAWREFS ? 2 : 1) == 0 ? T_CELL : T_NAME;
      if (RAWREFS && nd_bool()) rkind[i][j] = T_RAW;
      rtgt[i][j] = (int)nd_range(0, NC + NX - 1); rname[i][j] = letter();
#ifdef GRAPH
      /* graph shape fixed by the variant (decimal digits: cell0.ref0, cell0.ref1, cell1.ref0, cell1.ref1; 0..3 = pointer to that cell, 4 = by name) */
      { static const int P10[4] = {1000, 100, 10, 1}; int dgt = (GRAPH / P10[i * NR + j]) % 10; if (dgt == 4) rkind[i][j] = T_NAME; else { rkind[i][j] = T_CELL; rtgt[i][j] = dgt; } }
#endif
#if ACYCLIC
      if (rkind[i][j] == T_CELL) ASSUME(rtgt[i][j] > i);     /* topological order: covers every acyclic graph up to relabelling */
#endif
      refs[i][j].f0 = (uint32_t)rkind[i][j];
      if (rkind[i][j] == T_CELL) *(Cell**)&refs[i][j].f1 = &cells[rtgt[i][j]];
      else if (rkind[i][j] == T_RAW) { rraw[i][j] = OP == 2 ? nd_bool() : 0; *(RawCell**)&refs[i][j].f1 = rraw[i][j] ? &raw1 : &raw; }
      else { uint8_t* nm = malloc(3); rname2[i][j] = nd_bool() ? 'x' : 0; nm[0] = rname[i][j]; nm[1] = rname2[i][j]; nm[2] = 0; *(uint8_t**)&refs[i][j].f1 = nm; } }      /* by-name: 1 or 2 characters (a longer name sharing a prefix with a cell name is a different cell) */
    cells[i].f2.f0 = NR; cells[i].f2.f1 = NR; cells[i].f2.f2 = (void*)refp[i]; cellp[i] = &cells[i]; }
  Lib lib = {0}; uint8_t lname[2] = {'L', 0}; lib.f0 = lname; lib.f3.f0 = NC + 2; lib.f3.f1 = NC; lib.f3.f2 = (void*)cellp;
#if OP == 2
  static RawCell* rawp[2]; rawp[0] = &raw; rawp[1] = &raw1; lib.f4.f0 = 2; lib.f4.f1 = 2; lib.f4.f2 = (void*)rawp;
#endif
#if OP == 0 || OP == 4      /* replace_cell(old library cell, new cell X0 | raw cell) */
  int oi = OI; uint8_t oldn = cname[oi][0];          /* which cell is replaced: enumerated by the variant */
#if OP == 0
  uint8_t newn = cname[NC][0];
  _ZN5gdstk7Library12replace_cellEPNS_4CellES2_(&lib, &cells[oi], &cells[NC]);
  CHECK(lib.f3.f1 == NC && ((Cell**)lib.f3.f2)[oi] == &cells[NC] && ((Cell**)lib.f3.f2)[1 - oi] == &cells[1 - oi], "the new cell takes the old cell's place, the other cell stays");
#else
  uint8_t newn = rawname[0];
  _ZN5gdstk7Library12replace_cellEPNS_4CellEPNS_7RawCellE(&lib, &cells[oi], &raw);
#if OI < NC
  CHECK(lib.f3.f1 == NC - 1 && ((Cell**)lib.f3.f2)[0] == &cells[1 - oi], "the old cell leaves the cell list");
  CHECK(lib.f4.f1 == 1 && ((RawCell**)lib.f4.f2)[0] == &raw, "the raw cell joins the raw cell list");
#else      /* the replaced cell object is not (or no longer) in the library: the lists stay, the references to it are still redirected */
  CHECK(lib.f3.f1 == NC && ((Cell**)lib.f3.f2)[0] == &cells[0] && ((Cell**)lib.f3.f2)[1] == &cells[1], "a cell that is not in the library: the cell list is unchanged");
  CHECK(lib.f4.f1 == 0, "and the raw cell list too");
#endif
#endif
  for (int i = 0; i < NC; i++) if (OP == 0 || i != oi) for (int j = 0; j < NR; j++) { Ref* r = &refs[i][j];
    /* references held by cells that are in the library after the edit (for OP 0 also those of the replaced cell object, which the loop never visits unless it is still listed) */
    if (OP == 0 && i == oi) continue;
    if (rkind[i][j] == T_CELL && rtgt[i][j] == oi) {
#if OP == 0
      CHECK(r->f0 == T_CELL && *(Cell**)&r->f1 == &cells[NC], "a reference to the old cell now designates the replacement");
#else
      CHECK(r->f0 == T_RAW && *(RawCell**)&r->f1 == &raw, "a reference to the old cell now designates the raw replacement");
#endif
    } else if (rkind[i][j] == T_CELL) { CHECK(r->f0 == T_CELL && *(Cell**)&r->f1 == &cells[rtgt[i][j]], "references to other cells are untouched");
    } else if (rkind[i][j] == T_NAME) { uint8_t* nm = *(uint8_t**)&r->f1; int hit = rname[i][j] == oldn && rname2[i][j] == 0; uint8_t want = hit ? newn : rname[i][j];
      CHECK(r->f0 == T_NAME && nm[0] == want && nm[1] == (hit ? 0 : rname2[i][j]), "a by-name reference follows exactly the replaced cell's name, every other name (incl. longer names with that prefix) is kept");
    } else { /* raw reference: retargeted iff the raw cell carries the old cell's name */
      if (rawname[0] == oldn) {
#if OP == 0
        CHECK(r->f0 == T_CELL && *(Cell**)&r->f1 == &cells[NC], "a raw reference with the old name now designates the replacement");
#else
        CHECK(r->f0 == T_RAW && *(RawCell**)&r->f1 == &raw, "raw reference designates the raw replacement");
#endif
      } else CHECK(r->f0 == T_RAW && *(RawCell**)&r->f1 == &raw, "other raw references untouched"); } }
#elif OP == 1     /* rename_cell(cell, new name) */
  int oi = (int)nd_range(0, NC - 1); uint8_t oldn = cname[oi][0]; uint8_t nn[2] = {letter(), 0};
  _ZN5gdstk7Library11rename_cellEPNS_4CellEPKc(&lib, &cells[oi], nn);
  CHECK(cells[oi].f0[0] == nn[0] && cells[oi].f0[1] == 0 && cells[oi].f0 != nn, "the cell carries the new name (own storage)");
  CHECK(cells[1 - oi].f0[0] == cname[1 - oi][0], "other cells keep their names");
  for (int i = 0; i < NC; i++) for (int j = 0; j < NR; j++) { Ref* r = &refs[i][j];
    if (rkind[i][j] == T_CELL) CHECK(r->f0 == T_CELL && *(Cell**)&r->f1 == &cells[rtgt[i][j]], "pointer references are untouched (they follow the cell object)");
    else if (rkind[i][j] == T_NAME) { uint8_t* nm = *(uint8_t**)&r->f1; int hit = rname[i][j] == oldn && rname2[i][j] == 0; uint8_t want = hit ? nn[0] : rname[i][j];
      CHECK(r->f0 == T_NAME && nm[0] == want && nm[1] == (hit ? 0 : rname2[i][j]), "by-name references to exactly the old name are renamed, all others (incl. longer names with that prefix) kept"); } }
#elif OP == 2     /* top_level */
  { ARGT__ZNK5gdstk7Library9top_levelERNS_5ArrayIPNS_4CellEEERNS1_IPNS_7RawCellEEE_1 tc = {0}; ARGT__ZNK5gdstk7Library9top_levelERNS_5ArrayIPNS_4CellEEERNS1_IPNS_7RawCellEEE_2 tr = {0};
    _ZNK5gdstk7Library9top_levelERNS_5ArrayIPNS_4CellEEERNS1_IPNS_7RawCellEEE(&lib, &tc, &tr);
    int refd[NC]; int ntop = 0;
    for (int k = 0; k < NC; k++) { refd[k] = 0; for (int i = 0; i < NC; i++) for (int j = 0; j < NR; j++) if (rkind[i][j] == T_CELL && rtgt[i][j] == k) refd[k] = 1; if (!refd[k]) ntop++; }
    /* a cell outside the library that shares a library cell's name shadows it in the name-keyed dependency map: excluded here, names of referenced cells are unique */
    for (int k = NC; k < NC + NX; k++) for (int q = 0; q < NC; q++) ASSUME(cname[k][0] != cname[q][0]);
    CHECK(tc.f1 == (uint64_t)ntop, "number of top-level cells");
    { int r0 = 0, r1 = raw_dep; for (int i = 0; i < NC; i++) for (int j = 0; j < NR; j++) if (rkind[i][j] == T_RAW) { if (rraw[i][j]) r1 = 1; else r0 = 1; }
      CHECK(tr.f1 == (uint64_t)(!r0 + !r1), "number of top-level raw cells");
      uint64_t pos = 0; if (!r0) { CHECK(pos < tr.f1 && ((RawCell**)tr.f2)[pos] == &raw, "raw cell 0 is top-level iff nothing references it"); pos++; }
      if (!r1) CHECK(pos < tr.f1 && ((RawCell**)tr.f2)[pos] == &raw1, "raw cell 1 is top-level iff neither a cell nor raw cell 0 references it"); }
    { uint64_t pos = 0; for (int k = 0; k < NC; k++) if (!refd[k]) { CHECK(pos < tc.f1 && ((Cell**)tc.f2)[pos] == &cells[k], "top-level cells are exactly the library cells no library cell references"); pos++; } } }
#elif OP == 3     /* Cell::get_dependencies(recursive) from cell 0 */
  { ARGT__ZNK5gdstk4Cell16get_dependenciesEbRNS_3MapIPS0_EE_2 deps = {0}; int rec = RECURSIVE;
    for (int a = 0; a < NC + NX; a++) for (int b = 0; b < a; b++) ASSUME(cname[a][0] != cname[b][0]);     /* the result is keyed by name */
    _ZNK5gdstk4Cell16get_dependenciesEbRNS_3MapIPS0_EE(&cells[0], rec, &deps);
    int want[NC + NX]; for (int k = 0; k < NC + NX; k++) want[k] = 0;
    for (int j = 0; j < NR; j++) if (rkind[0][j] == T_CELL) want[rtgt[0][j]] = 1;
    if (rec) for (int j = 0; j < NR; j++) if (want[1] && rkind[1][j] == T_CELL) want[rtgt[1][j]] = 1;
    uint64_t n = 0; for (int k = 0; k < NC + NX; k++) n += want[k];
    CHECK(deps.f1 == n, "number of dependencies");
#ifdef REAL
#define DEPGET(m, k) ((void*)_ZNK5gdstk3MapIPNS_4CellEE3getEPKc((m), (k)))
#else
#define DEPGET(m, k) am_get((m), (k))
#endif
    for (int k = 0; k < NC + NX; k++) { int found = DEPGET(&deps, cname[k]) == (void*)&cells[k]; CHECK(found == want[k], "dependency set == direct (or transitive) set of referenced cells"); } }
#endif
  WITNESS_POINT();
  return 0;
}
