/* Independent GDSII stream encoder, written from the stream format description (not from gdstk): records are
   <uint16 BE total length><record type><data type><payload>, padded to even length; integers big endian two's complement;
   reals 8-byte excess-64 base-16; XY as pairs of 32-bit integers. Appends to the in-memory file F. */
#ifndef GDS_F
#define GDS_F 0
#endif
static void g_u8(uint8_t b) { __CPROVER_assert(vf_files[GDS_F].len < VF_CAP, "spec encoder: file capacity"); vf_files[GDS_F].data[vf_files[GDS_F].len++] = b; }
static void g_u16(uint32_t v) { g_u8((uint8_t)(v >> 8)); g_u8((uint8_t)v); }
static void g_u32(uint32_t v) { g_u16(v >> 16); g_u16(v & 0xffff); }
static void g_u64(uint64_t v) { g_u32((uint32_t)(v >> 32)); g_u32((uint32_t)v); }
static void g_rec(uint8_t type, uint8_t dtype, uint32_t paylen) { g_u16(4 + paylen); g_u8(type); g_u8(dtype); }
enum { G_HEADER = 0x00, G_BGNLIB = 0x01, G_LIBNAME = 0x02, G_UNITS = 0x03, G_ENDLIB = 0x04, G_BGNSTR = 0x05, G_STRNAME = 0x06, G_ENDSTR = 0x07, G_BOUNDARY = 0x08, G_PATH = 0x09,
       G_SREF = 0x0a, G_AREF = 0x0b, G_TEXT = 0x0c, G_LAYER = 0x0d, G_DATATYPE = 0x0e, G_WIDTH = 0x0f, G_XY = 0x10, G_ENDEL = 0x11, G_SNAME = 0x12, G_COLROW = 0x13, G_TEXTTYPE = 0x16,
       G_PRESENTATION = 0x17, G_STRING = 0x19, G_STRANS = 0x1a, G_MAG = 0x1b, G_ANGLE = 0x1c, G_PATHTYPE = 0x21, G_ELFLAGS = 0x26, G_PROPATTR = 0x2b, G_PROPVALUE = 0x2c, G_BOX = 0x2d,
       G_BOXTYPE = 0x2e, G_PLEX = 0x2f, G_BGNEXTN = 0x30, G_ENDEXTN = 0x31 };
enum { GT_NONE = 0, GT_BITS = 1, GT_I16 = 2, GT_I32 = 3, GT_R8 = 5, GT_STR = 6 };
static void g_none(uint8_t type) { g_rec(type, GT_NONE, 0); }
static void g_i16(uint8_t type, uint32_t v) { g_rec(type, GT_I16, 2); g_u16(v & 0xffff); }
static void g_bits(uint8_t type, uint32_t v) { g_rec(type, GT_BITS, 2); g_u16(v & 0xffff); }
static void g_i32(uint8_t type, uint32_t v) { g_rec(type, GT_I32, 4); g_u32(v); }
static void g_real(uint8_t type, uint64_t bits) { g_rec(type, GT_R8, 8); g_u64(bits); }
static void g_str1(uint8_t type, uint8_t c) { g_rec(type, GT_STR, 2); g_u8(c); g_u8(0); }          /* 1-character string, NUL padded to even length */
static void g_str2(uint8_t type, uint8_t c, uint8_t d) { g_rec(type, GT_STR, 2); g_u8(c); g_u8(d); }  /* 2-character string, already even */
static void g_times(uint8_t type) { g_rec(type, GT_I16, 24); for (int i = 0; i < 12; i++) g_u16(i < 6 ? 2000 + i : 2010 + i); }
/* 8-byte reals of the constants used for units (from the format's own examples): 1.0, 1e-3, 1e-9, 1e-6 */
#define R8_ONE 0x4110000000000000ULL
#define R8_1EM3 0x3E4189374BC6A7EFULL
#define R8_1EM9 0x3944B82FA09B5A54ULL
#define R8_1EM6 0x3C10C6F7A0B5ED8DULL
#define R8_TWO 0x4120000000000000ULL
#define R8_HALF 0x4080000000000000ULL
#define R8_90 0x425A000000000000ULL
static void g_file_begin(uint64_t user_per_db, uint64_t meters_per_db) { vf_files[GDS_F].len = 0; g_i16(G_HEADER, 600); g_times(G_BGNLIB); g_str1(G_LIBNAME, 'L');
  g_rec(G_UNITS, GT_R8, 16); g_u64(user_per_db); g_u64(meters_per_db); }
static void g_cell_begin(uint8_t name) { g_times(G_BGNSTR); g_str1(G_STRNAME, name); }
static void g_cell_end(void) { g_none(G_ENDSTR); }
static void g_file_end(void) { g_none(G_ENDLIB); }
