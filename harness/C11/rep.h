/* shared by the C11/C09/C06 harnesses: build a Repetition of a concrete KIND/shape with symbolic values in a raw, layout-based way
   (Repetition = {u32 type; pad; union at offset 8: {u64 columns, rows; Vec2 v1 (= spacing), v2} | Array{cap,count,items}}),
   and enumerate the reference offset list the documentation defines. KIND: 1 Rectangular, 2 Regular, 3 Explicit, 4 ExplicitX, 5 ExplicitY. */
#ifndef REP_MAXOFF
#define REP_MAXOFF 10
#endif
typedef struct S_struct_gdstk__Repetition Rep;
static int64_t rep_ex[REP_MAXOFF], rep_ey[REP_MAXOFF]; static int rep_n;       /* reference enumeration, first element (0,0) */
static uint64_t* rep_u(Rep* r) { return (uint64_t*)((uint8_t*)r + 8); }
static NUM* rep_num(Rep* r) { return (NUM*)((uint8_t*)r + 24); }
/* shape: A = columns or list length, B = rows; values in -RR..RR */
static void rep_build(Rep* r, int kind, int nA, int nB, int RR) {
  { Rep z = {0}; *r = z; } r->f0 = (uint32_t)kind; rep_n = 0;
  if (kind == 1) { int64_t sx = nd_range(-RR, RR), sy = nd_range(-RR, RR); rep_u(r)[0] = nA; rep_u(r)[1] = nB; rep_num(r)[0] = NUM_OF_INT(sx); rep_num(r)[1] = NUM_OF_INT(sy);
    for (int i = 0; i < nA; i++) for (int j = 0; j < nB; j++) { rep_ex[rep_n] = i * sx; rep_ey[rep_n] = j * sy; rep_n++; } }
  else if (kind == 2) { int64_t ax = nd_range(-RR, RR), ay = nd_range(-RR, RR), bx = nd_range(-RR, RR), by = nd_range(-RR, RR);
    rep_u(r)[0] = nA; rep_u(r)[1] = nB; rep_num(r)[0] = NUM_OF_INT(ax); rep_num(r)[1] = NUM_OF_INT(ay); rep_num(r)[2] = NUM_OF_INT(bx); rep_num(r)[3] = NUM_OF_INT(by);
    for (int i = 0; i < nA; i++) for (int j = 0; j < nB; j++) { rep_ex[rep_n] = i * ax + j * bx; rep_ey[rep_n] = i * ay + j * by; rep_n++; } }
  else if (kind == 3) { NUM* it = nA ? malloc(sizeof(NUM) * 2 * nA) : 0; rep_u(r)[0] = nA; rep_u(r)[1] = nA; rep_u(r)[2] = (uint64_t)(uintptr_t)it; *(NUM**)&rep_u(r)[2] = it;
    rep_ex[0] = rep_ey[0] = 0; rep_n = 1;
    for (int i = 0; i < nA; i++) { int64_t x = nd_range(-RR, RR), y = nd_range(-RR, RR); it[2 * i] = NUM_OF_INT(x); it[2 * i + 1] = NUM_OF_INT(y); rep_ex[rep_n] = x; rep_ey[rep_n] = y; rep_n++; } }
  else if (kind == 4 || kind == 5) { NUM* it = nA ? malloc(sizeof(NUM) * nA) : 0; rep_u(r)[0] = nA; rep_u(r)[1] = nA; *(NUM**)&rep_u(r)[2] = it;
    rep_ex[0] = rep_ey[0] = 0; rep_n = 1;
    for (int i = 0; i < nA; i++) { int64_t c = nd_range(-RR, RR); it[i] = NUM_OF_INT(c); rep_ex[rep_n] = kind == 4 ? c : 0; rep_ey[rep_n] = kind == 4 ? 0 : c; rep_n++; } }
}
