/* C11: Repetition::get_count / get_offsets / get_extrema agree with the documented set of displacement vectors. */
#include "prologue.h"
#include "C11/rep.h"
#define GET_COUNT _ZNK5gdstk10Repetition9get_countEv
#define GET_OFFSETS _ZNK5gdstk10Repetition11get_offsetsERNS_5ArrayINS_4Vec2EEE
#define GET_EXTREMA _ZNK5gdstk10Repetition11get_extremaERNS_5ArrayINS_4Vec2EEE
typedef ARGT__ZNK5gdstk10Repetition11get_offsetsERNS_5ArrayINS_4Vec2EEE_1 VArr;
#define RR 3
int main(void) {
  Rep r; rep_build(&r, KIND, A, B, RR);
  uint64_t cnt = GET_COUNT(&r); OBS("count", cnt);
  CHECK(cnt == (uint64_t)rep_n, "get_count == cardinality of the documented set (with multiplicity)");
  VArr off; off.f0 = 0; off.f1 = 0; off.f2 = 0;
  GET_OFFSETS(&r, &off);
  CHECK(off.f1 == (uint64_t)rep_n, "get_offsets appends exactly count vectors");
  NUM* o = (NUM*)off.f2;
  for (int k = 0; k < rep_n; k++) { int want = 0, have = 0;
    for (int m = 0; m < rep_n; m++) { if (rep_ex[m] == rep_ex[k] && rep_ey[m] == rep_ey[k]) want++; if ((uint64_t)m < off.f1 && NUM_EQ(o[2 * m], NUM_OF_INT(rep_ex[k])) && NUM_EQ(o[2 * m + 1], NUM_OF_INT(rep_ey[k]))) have++; }
    CHECK(want == have, "enumerated offsets are exactly the documented vectors (as a multiset)"); }
  if (rep_n > 0 && off.f1 > 0) CHECK(NUM_EQ(o[0], NUM_OF_INT(0)) && NUM_EQ(o[1], NUM_OF_INT(0)), "the zero vector comes first");
  for (int m = 0; m < rep_n; m++) if ((uint64_t)m < off.f1) { OBS("ox", NUM_TO_I64(o[2 * m])); OBS("oy", NUM_TO_I64(o[2 * m + 1])); }
  VArr ext; ext.f0 = 0; ext.f1 = 0; ext.f2 = 0;
  GET_EXTREMA(&r, &ext);
  NUM* e = (NUM*)ext.f2;
  CHECK(ext.f1 <= 4, "at most four extreme vectors");
  if (rep_n > 0) {
    int64_t lox = 0, hix = 0, loy = 0, hiy = 0, elox = 100, ehix = -100, eloy = 100, ehiy = -100;
    for (int m = 0; m < rep_n; m++) { if (rep_ex[m] < lox) lox = rep_ex[m]; if (rep_ex[m] > hix) hix = rep_ex[m]; if (rep_ey[m] < loy) loy = rep_ey[m]; if (rep_ey[m] > hiy) hiy = rep_ey[m]; }
    CHECK(ext.f1 >= 1, "a non-empty repetition has extrema");
    for (int k = 0; k < 4; k++) if ((uint64_t)k < ext.f1) { int64_t x = NUM_TO_I64(e[2 * k]), y = NUM_TO_I64(e[2 * k + 1]); OBS("ex", x); OBS("ey", y);
      int member = 0; for (int m = 0; m < rep_n; m++) if (rep_ex[m] == x && rep_ey[m] == y) member = 1;
      CHECK(member, "every extreme vector is a member of the set");
      if (x < elox) elox = x; if (x > ehix) ehix = x; if (y < eloy) eloy = y; if (y > ehiy) ehiy = y; }
    CHECK(elox == lox && ehix == hix && eloy == loy && ehiy == hiy, "the extrema span the bounding box of the set");
  } else CHECK(ext.f1 == 0, "an empty repetition has no extrema");
  WITNESS_POINT();
  return 0;
}
