/* C11: Repetition::transform maps every vector of the set by the linear part of the transform
   (magnify, reflect across x, rotate): v -> m * R(c,s) * (x, +-y).  cos/sin are FREE symbols (one query covers every rotation:
   the law is a polynomial identity in c, s, m and the vector components; integer-exact arithmetic).
   Variants fix what decides the code path: KIND/shape, REFL, ROT0 (rotation == 0 exactly), MAG1 (magnification == 1 exactly). */
#include "prologue.h"
#include "C11/rep.h"
#include "C10/common.h"
#define GET_OFFSETS _ZNK5gdstk10Repetition11get_offsetsERNS_5ArrayINS_4Vec2EEE
#define TRANSFORM _ZN5gdstk10Repetition9transformEdbd
typedef ARGT__ZNK5gdstk10Repetition11get_offsetsERNS_5ArrayINS_4Vec2EEE_1 VArr;
#define RR 2
int main(void) {
  Rep r; rep_build(&r, KIND, A, B, RR);
  OI m = MAG1 ? 1 : (OI)nd_range(-3, 3); if (!MAG1) ASSUME(m != 1);
  NUM rot = pick_rotation(ROT0);
  TRANSFORM(&r, NUM_OF_INT(m), REFL, rot);
  VArr off; off.f0 = 0; off.f1 = 0; off.f2 = 0;
  GET_OFFSETS(&r, &off);
  CHECK(off.f1 == (uint64_t)rep_n, "same number of vectors after the transform");
  NUM* o = (NUM*)off.f2;
  OI tx[REP_MAXOFF], ty[REP_MAXOFF];
  for (int k = 0; k < rep_n; k++) { OI x = (OI)rep_ex[k], y = (OI)(REFL ? -rep_ey[k] : rep_ey[k]); tx[k] = m * (C_ * x - S_ * y); ty[k] = m * (S_ * x + C_ * y); }
  for (int k = 0; k < rep_n; k++) { int want = 0, have = 0;
    for (int j = 0; j < rep_n; j++) { if (tx[j] == tx[k] && ty[j] == ty[k]) want++; if ((uint64_t)j < off.f1 && NUM_EQ(o[2 * j], NUM_OF_INT(tx[k])) && NUM_EQ(o[2 * j + 1], NUM_OF_INT(ty[k]))) have++; }
    CHECK(want == have, "every vector of the transformed repetition is the linear image of a vector of the original (as a multiset)"); }
  WITNESS_POINT();
  return 0;
}
