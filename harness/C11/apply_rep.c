/* C11: Polygon::apply_repetition produces exactly one translated, otherwise identical, independent copy per non-zero
   vector of the repetition and leaves the original without repetition (geometry, tag and properties unchanged). */
#include "prologue.h"
#include "C11/rep.h"
#define APPLY _ZN5gdstk7Polygon16apply_repetitionERNS_5ArrayIPS0_EE
typedef struct S_struct_gdstk__Polygon Poly;
typedef struct S_struct_gdstk__Property Prop;
typedef struct S_struct_gdstk__PropertyValue PVal;
typedef ARGT__ZN5gdstk7Polygon16apply_repetitionERNS_5ArrayIPS0_EE_1 PArr;
#define NV 2
#define RR 3
int main(void) {
  Poly poly = {0};
  int64_t vx[NV], vy[NV]; NUM* pts = malloc(sizeof(NUM) * 2 * NV);
  for (int i = 0; i < NV; i++) { vx[i] = nd_range(-RR, RR); vy[i] = nd_range(-RR, RR); pts[2 * i] = NUM_OF_INT(vx[i]); pts[2 * i + 1] = NUM_OF_INT(vy[i]); }
  uint64_t tag = nd_u64(); poly.f0 = tag; poly.f1.f0 = NV; poly.f1.f1 = NV; poly.f1.f2 = (void*)pts;
  /* one property "a" -> unsigned value */
  Prop* pr = malloc(sizeof(Prop)); uint8_t* nm = malloc(2); nm[0] = 'a'; nm[1] = 0; PVal* pv = malloc(sizeof(PVal)); memset(pv, 0, sizeof(PVal)); uint64_t pval = nd_u64(); *(uint64_t*)((uint8_t*)pv + 8) = pval;
  pr->f0 = nm; pr->f1 = pv; pr->f2 = 0; poly.f3 = pr;
  rep_build(&poly.f2, KIND, A, B, RR);
  PArr res; res.f0 = 0; res.f1 = 0; res.f2 = 0;
  APPLY(&poly, &res);
  OBS("n", res.f1);
  CHECK(res.f1 == (uint64_t)(rep_n > 0 ? rep_n - 1 : 0), "one new polygon per non-zero vector");
  CHECK(poly.f2.f0 == 0, "the original is left without repetition");
  CHECK(poly.f0 == tag && poly.f1.f1 == NV && poly.f1.f2 == (void*)pts && poly.f3 == pr, "the original keeps tag, vertices and properties");
  for (int i = 0; i < NV; i++) CHECK(NUM_EQ(pts[2 * i], NUM_OF_INT(vx[i])) && NUM_EQ(pts[2 * i + 1], NUM_OF_INT(vy[i])), "the original's vertices are unchanged");
  for (int k = 1; k < REP_MAXOFF; k++) if (k < rep_n && (uint64_t)(k - 1) < res.f1) {
    Poly* c = (Poly*)res.f2[k - 1];
    CHECK(c != 0 && c != &poly && c->f0 == tag && c->f2.f0 == 0, "copy: same tag, no repetition");
    CHECK(c->f1.f1 == NV && c->f1.f2 != (void*)pts, "copy: own vertex storage");
    NUM* q = (NUM*)c->f1.f2;
    for (int i = 0; i < NV; i++) { OBS("x", NUM_TO_I64(q[2 * i])); OBS("y", NUM_TO_I64(q[2 * i + 1]));
      CHECK(NUM_EQ(q[2 * i], NUM_OF_INT(vx[i] + rep_ex[k])) && NUM_EQ(q[2 * i + 1], NUM_OF_INT(vy[i] + rep_ey[k])), "copy k is the original translated by vector k"); }
    Prop* cp = (Prop*)c->f3;
    CHECK(cp != 0 && cp != pr && cp->f0 != nm && cp->f0[0] == 'a' && cp->f0[1] == 0 && cp->f1 != pv && *(uint64_t*)((uint8_t*)cp->f1 + 8) == pval && cp->f2 == 0, "copy: own, equal property list");
  }
  WITNESS_POINT();
  return 0;
}
