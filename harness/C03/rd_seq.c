/* C03 (reader direction, SEQUENCES): what one element or one cell carries - STRANS / MAG / ANGLE, PRESENTATION, PATHTYPE, WIDTH,
   extensions, properties - belongs to that element only: the element (or cell) that follows in the stream and does not carry
   those records loads with the defaults of the specification (magnification 1, angle 0, no reflection, presentation 0, path
   type 0, width 0, no extensions, no properties), whatever came before it. Spec-encoded streams (harness/gds_spec.h), values symbolic. */
#include "harness.h"
double my_exp2(double); double uf_div(double, double);
#include "prologue.h"
#define VF_CAP 420
#include "vfile.h"
#include "libm.h"
#include "ufdiv.h"
#include "gds_spec.h"
#include "gds_read.h"
#define CR (1 << 20)
typedef struct S_struct_gdstk__PropertyValue PVal;
typedef struct S_struct_gdstk__Property Prop;
int main(void) {
  uint16_t layer = nd_u16(), dtype = nd_u16(), layer2 = nd_u16(), dtype2 = nd_u16(); ASSUME(layer < 32768 && dtype < 32768 && layer2 < 32768 && dtype2 < 32768);
  int32_t x[4], y[4]; for (int i = 0; i < 4; i++) { x[i] = (int32_t)nd_range(-CR, CR); y[i] = (int32_t)nd_range(-CR, CR); }
  g_file_begin(R8_ONE, R8_1EM9);
  g_cell_begin('A');
#if SEQ == 0 || SEQ == 4      /* TEXT with PRESENTATION, STRANS (reflection), MAG 2, ANGLE 90; then - in the same cell (0) or in the next cell (4) - a TEXT with none of them */
  uint16_t pres = nd_u16();
  g_none(G_TEXT); g_i16(G_LAYER, layer); g_i16(G_TEXTTYPE, dtype); g_bits(G_PRESENTATION, pres); g_bits(G_STRANS, 0x8000); g_real(G_MAG, R8_TWO); g_real(G_ANGLE, R8_90);
  g_rec(G_XY, GT_I32, 8); g_u32((uint32_t)x[0]); g_u32((uint32_t)y[0]); g_str1(G_STRING, 's'); g_none(G_ENDEL);
#if SEQ == 4
  g_cell_end(); g_cell_begin('B');
#endif
  g_none(G_TEXT); g_i16(G_LAYER, layer2); g_i16(G_TEXTTYPE, dtype2); g_rec(G_XY, GT_I32, 8); g_u32((uint32_t)x[1]); g_u32((uint32_t)y[1]); g_str1(G_STRING, 't'); g_none(G_ENDEL);
#elif SEQ == 1                /* SREF with STRANS (reflection), MAG 0.5, ANGLE 90; then a plain SREF; the target cell follows */
  g_none(G_SREF); g_str1(G_SNAME, 'D'); g_bits(G_STRANS, 0x8000); g_real(G_MAG, R8_HALF); g_real(G_ANGLE, R8_90); g_rec(G_XY, GT_I32, 8); g_u32((uint32_t)x[0]); g_u32((uint32_t)y[0]); g_none(G_ENDEL);
  g_none(G_SREF); g_str1(G_SNAME, 'D'); g_rec(G_XY, GT_I32, 8); g_u32((uint32_t)x[1]); g_u32((uint32_t)y[1]); g_none(G_ENDEL);
  g_cell_end(); g_cell_begin('D');
#elif SEQ == 2                /* PATH with PATHTYPE 4, WIDTH, BGNEXTN, ENDEXTN; then a PATH with only layer, datatype and XY */
  int32_t w = (int32_t)nd_range(1, 1000) * 2; int32_t e0 = (int32_t)nd_range(1, 1000), e1 = (int32_t)nd_range(1, 1000); ASSUME(x[0] != x[1] && x[2] != x[3]);
  g_none(G_PATH); g_i16(G_LAYER, layer); g_i16(G_DATATYPE, dtype); g_i16(G_PATHTYPE, 4); g_i32(G_WIDTH, (uint32_t)w); g_i32(G_BGNEXTN, (uint32_t)e0); g_i32(G_ENDEXTN, (uint32_t)e1);
  g_rec(G_XY, GT_I32, 16); g_u32((uint32_t)x[0]); g_u32((uint32_t)y[0]); g_u32((uint32_t)x[1]); g_u32((uint32_t)y[0]); g_none(G_ENDEL);
  g_none(G_PATH); g_i16(G_LAYER, layer2); g_i16(G_DATATYPE, dtype2); g_rec(G_XY, GT_I32, 16); g_u32((uint32_t)x[2]); g_u32((uint32_t)y[2]); g_u32((uint32_t)x[3]); g_u32((uint32_t)y[2]); g_none(G_ENDEL);
#elif SEQ == 3                /* BOUNDARY with a property; then a BOUNDARY without */
  uint16_t a0 = nd_u16(); uint8_t v0 = (uint8_t)nd_range('a', 'z'); ASSUME(!(x[0] == x[2] && y[0] == y[2]) && !(x[1] == x[3] && y[1] == y[3]));
  g_none(G_BOUNDARY); g_i16(G_LAYER, layer); g_i16(G_DATATYPE, dtype);
  g_rec(G_XY, GT_I32, 32); for (int i = 0; i < 3; i++) { g_u32((uint32_t)x[i]); g_u32((uint32_t)y[i]); } g_u32((uint32_t)x[0]); g_u32((uint32_t)y[0]);
  g_i16(G_PROPATTR, a0); g_str1(G_PROPVALUE, v0); g_none(G_ENDEL);
  g_none(G_BOUNDARY); g_i16(G_LAYER, layer2); g_i16(G_DATATYPE, dtype2);
  g_rec(G_XY, GT_I32, 32); for (int i = 1; i < 4; i++) { g_u32((uint32_t)x[i]); g_u32((uint32_t)y[i]); } g_u32((uint32_t)x[1]); g_u32((uint32_t)y[1]); g_none(G_ENDEL);
#elif SEQ == 5                /* TEXT carrying PATHTYPE and WIDTH (legal in a TEXT element), then a PATH with neither */
  int32_t w = (int32_t)nd_range(1, 1000) * 2; ASSUME(x[2] != x[3]);
  g_none(G_TEXT); g_i16(G_LAYER, layer); g_i16(G_TEXTTYPE, dtype); g_i16(G_PATHTYPE, 2); g_i32(G_WIDTH, (uint32_t)w); g_rec(G_XY, GT_I32, 8); g_u32((uint32_t)x[0]); g_u32((uint32_t)y[0]); g_str1(G_STRING, 's'); g_none(G_ENDEL);
  g_none(G_PATH); g_i16(G_LAYER, layer2); g_i16(G_DATATYPE, dtype2); g_rec(G_XY, GT_I32, 16); g_u32((uint32_t)x[2]); g_u32((uint32_t)y[2]); g_u32((uint32_t)x[3]); g_u32((uint32_t)y[2]); g_none(G_ENDEL);
#elif SEQ == 6                /* AREF 2 x 3 (COLROW + three corners), then a plain SREF: no array; target cell follows */
  int32_t pc = (int32_t)nd_range(1, 1000), pr = (int32_t)nd_range(1, 1000);
  g_none(G_AREF); g_str1(G_SNAME, 'D'); g_rec(G_COLROW, GT_I16, 4); g_u16(2); g_u16(3);
  g_rec(G_XY, GT_I32, 24); g_u32((uint32_t)x[0]); g_u32((uint32_t)y[0]); g_u32((uint32_t)(x[0] + 2 * pc)); g_u32((uint32_t)y[0]); g_u32((uint32_t)x[0]); g_u32((uint32_t)(y[0] + 3 * pr)); g_none(G_ENDEL);
  g_none(G_SREF); g_str1(G_SNAME, 'D'); g_rec(G_XY, GT_I32, 8); g_u32((uint32_t)x[1]); g_u32((uint32_t)y[1]); g_none(G_ENDEL);
  g_cell_end(); g_cell_begin('D');
#elif SEQ == 7 || SEQ == 8     /* elements of DIFFERENT kinds in sequence: SREF (STRANS, MAG, ANGLE) then a plain TEXT (7); TEXT (PRESENTATION, STRANS, MAG, ANGLE) then a plain SREF (8) */
  uint16_t pres = nd_u16();
#if SEQ == 7
  g_none(G_SREF); g_str1(G_SNAME, 'D'); g_bits(G_STRANS, 0x8000); g_real(G_MAG, R8_HALF); g_real(G_ANGLE, R8_90); g_rec(G_XY, GT_I32, 8); g_u32((uint32_t)x[0]); g_u32((uint32_t)y[0]); g_none(G_ENDEL);
  g_none(G_TEXT); g_i16(G_LAYER, layer2); g_i16(G_TEXTTYPE, dtype2); g_rec(G_XY, GT_I32, 8); g_u32((uint32_t)x[1]); g_u32((uint32_t)y[1]); g_str1(G_STRING, 't'); g_none(G_ENDEL);
#else
  g_none(G_TEXT); g_i16(G_LAYER, layer2); g_i16(G_TEXTTYPE, dtype2); g_bits(G_PRESENTATION, pres); g_bits(G_STRANS, 0x8000); g_real(G_MAG, R8_TWO); g_real(G_ANGLE, R8_90); g_rec(G_XY, GT_I32, 8); g_u32((uint32_t)x[1]); g_u32((uint32_t)y[1]); g_str1(G_STRING, 't'); g_none(G_ENDEL);
  g_none(G_SREF); g_str1(G_SNAME, 'D'); g_rec(G_XY, GT_I32, 8); g_u32((uint32_t)x[0]); g_u32((uint32_t)y[0]); g_none(G_ENDEL);
#endif
  g_cell_end(); g_cell_begin('D');
#endif
  g_cell_end(); g_file_end();
  uint8_t fname[2] = {'f', 0}; uint32_t err = 0; Lib lib = {0};
  READ_GDS(&lib, fname, 0.0, 0.0, (void*)0, &err);
  CHECK(err == 0 && vf_open_count == 0, "loads, handle released");
  CHECK(lib.f3.f1 == ((SEQ == 1 || SEQ == 4 || SEQ == 6 || SEQ == 7 || SEQ == 8) ? 2 : 1), "cells");
  Cell* c = lib_cell(&lib, 0);
#if SEQ == 0 || SEQ == 4
  Cell* c2 = SEQ == 4 ? lib_cell(&lib, 1) : c;
  CHECK(c->f5.f1 == (SEQ == 4 ? 1 : 2) && c2->f5.f1 == (SEQ == 4 ? 1 : 2), "labels");
  Label* l0 = ((Label**)c->f5.f2)[0]; Label* l1 = ((Label**)c2->f5.f2)[SEQ == 4 ? 0 : 1];
  CHECK(l0->f0 == TAG(layer, dtype) && l0->f1[0] == 's' && l0->f5 == 2.0 && (l0->f6 & 1) == 1 && l0->f3 == (uint32_t)(pres & 0xf) && l0->f4 == 3.14159265358979323846 / 180.0 * 90.0, "first label as encoded");
  CHECK(l1->f0 == TAG(layer2, dtype2) && l1->f1[0] == 't' && VXD(l1->f2) == (double)x[1] && VYD(l1->f2) == (double)y[1], "second label: its own tag, text and position");
  CHECK(l1->f5 == 1.0 && l1->f4 == 0.0 && (l1->f6 & 1) == 0 && l1->f3 == 0, "second label: default magnification, angle, reflection and presentation");
#elif SEQ == 1
  CHECK(c->f2.f1 == 2, "two references"); Ref* r0 = ((Ref**)c->f2.f2)[0]; Ref* r1 = ((Ref**)c->f2.f2)[1]; Cell* t = lib_cell(&lib, 1);
  CHECK(r0->f0 == 0 && *(Cell**)&r0->f1 == t && r0->f4 == 0.5 && (r0->f5 & 1) == 1 && r0->f3 == 3.14159265358979323846 / 180.0 * 90.0, "first reference as encoded");
  CHECK(r1->f0 == 0 && *(Cell**)&r1->f1 == t && VXD(r1->f2) == (double)x[1] && VYD(r1->f2) == (double)y[1], "second reference: resolved, its own origin");
  CHECK(r1->f4 == 1.0 && r1->f3 == 0.0 && (r1->f5 & 1) == 0, "second reference: default magnification, angle and reflection");
#elif SEQ == 2
  CHECK(c->f3.f1 == 2, "two paths"); FPath* p0 = ((FPath**)c->f3.f2)[0]; FPath* p1 = ((FPath**)c->f3.f2)[1]; FElem* e0_ = p0->f1; FElem* e1_ = p1->f1;
  CHECK(e0_->f0 == TAG(layer, dtype) && e0_->f5 == 3 && VXD(e0_->f6) == (double)e0 && VYD(e0_->f6) == (double)e1 && ((double*)e0_->f1.f2)[0] == (double)w / 2, "first path as encoded");
  CHECK(e1_->f0 == TAG(layer2, dtype2) && p1->f0.f0.f1 == 2 && ((double*)p1->f0.f0.f2)[0] == (double)x[2] && ((double*)p1->f0.f0.f2)[2] == (double)x[3], "second path: its own tag and points");
  CHECK(e1_->f5 == 0 && ((double*)e1_->f1.f2)[0] == 0.0 && ((double*)e1_->f1.f2)[2] == 0.0, "second path: default path type (flush ends) and width 0");
#elif SEQ == 3
  CHECK(c->f1.f1 == 2, "two polygons"); Poly* p0 = ((Poly**)c->f1.f2)[0]; Poly* p1 = ((Poly**)c->f1.f2)[1];
  CHECK(p0->f3 != 0 && p0->f0 == TAG(layer, dtype), "first polygon carries its property");
  CHECK(p1->f0 == TAG(layer2, dtype2) && p1->f1.f1 == 3 && ((double*)p1->f1.f2)[0] == (double)x[1], "second polygon: its own tag and vertices");
  CHECK(p1->f3 == 0, "second polygon: no properties");
#elif SEQ == 5
  CHECK(c->f5.f1 == 1 && c->f3.f1 == 1, "one label, one path"); FPath* p1 = ((FPath**)c->f3.f2)[0]; FElem* e1_ = p1->f1;
  CHECK(e1_->f0 == TAG(layer2, dtype2) && p1->f0.f0.f1 == 2 && ((double*)p1->f0.f0.f2)[0] == (double)x[2], "the path: its own tag and points");
  CHECK(e1_->f5 == 0 && ((double*)e1_->f1.f2)[0] == 0.0 && ((double*)e1_->f1.f2)[2] == 0.0, "the path: default path type and width 0, not the text element's");
#elif SEQ == 6
  CHECK(c->f2.f1 == 2, "two references"); Ref* r0 = ((Ref**)c->f2.f2)[0]; Ref* r1 = ((Ref**)c->f2.f2)[1]; Cell* t = lib_cell(&lib, 1);
  CHECK(r0->f6.f0 == 1 && *(Cell**)&r0->f1 == t, "first reference: a rectangular array");
  CHECK(r1->f0 == 0 && *(Cell**)&r1->f1 == t && VXD(r1->f2) == (double)x[1] && VYD(r1->f2) == (double)y[1] && r1->f6.f0 == 0, "second reference: resolved, its own origin, no repetition");
#elif SEQ == 7 || SEQ == 8
  CHECK(c->f2.f1 == 1 && c->f5.f1 == 1, "one reference, one label"); Ref* r = ((Ref**)c->f2.f2)[0]; Label* l = ((Label**)c->f5.f2)[0]; Cell* t = lib_cell(&lib, 1);
  CHECK(r->f0 == 0 && *(Cell**)&r->f1 == t && VXD(r->f2) == (double)x[0] && VYD(r->f2) == (double)y[0], "the reference: resolved, its own origin");
  CHECK(l->f0 == TAG(layer2, dtype2) && l->f1 && l->f1[0] == 't' && VXD(l->f2) == (double)x[1] && VYD(l->f2) == (double)y[1], "the label: its own tag, text and position");
#if SEQ == 7
  CHECK(r->f4 == 0.5 && (r->f5 & 1) == 1 && r->f3 == 3.14159265358979323846 / 180.0 * 90.0, "the reference keeps what it carried");
  CHECK(l->f5 == 1.0 && l->f4 == 0.0 && (l->f6 & 1) == 0 && l->f3 == 0, "the label that follows has the defaults");
#else
  CHECK(l->f5 == 2.0 && (l->f6 & 1) == 1 && l->f3 == (uint32_t)(pres & 0xf) && l->f4 == 3.14159265358979323846 / 180.0 * 90.0, "the label keeps what it carried");
  CHECK(r->f4 == 1.0 && r->f3 == 0.0 && (r->f5 & 1) == 0 && r->f6.f0 == 0, "the reference that follows has the defaults");
#endif
#endif
  WITNESS_POINT();
  return 0;
}
