/* C03 (reader direction): a stream emitted by the specification-derived encoder (harness/gds_spec.h) loads to exactly the layout
   it encodes. Framing is fixed by the variant (ELEM), every field value is symbolic. Unit = precision (user unit per database
   unit = 1), so coordinates are the integers of the stream. */
#include "harness.h"
double my_exp2(double); double uf_div(double, double);
#include "prologue.h"
#define VF_CAP 320
#include "vfile.h"
#include "libm.h"
#include "ufdiv.h"
#include "gds_spec.h"
#include "gds_read.h"
#define CR (1 << 20)
int main(void) {
  uint16_t layer = nd_u16(), dtype = nd_u16(); ASSUME(layer < 32768 && dtype < 32768);
  int32_t x[4], y[4]; for (int i = 0; i < 4; i++) { x[i] = (int32_t)nd_range(-CR, CR); y[i] = (int32_t)nd_range(-CR, CR); }
#if ELEM == 3
  uint8_t cn = 'A';          /* names concrete here: the ENDLIB name resolution hashes them (FNV multiplications) */
#else
  uint8_t cn = (uint8_t)nd_range('A', 'C');
#endif
  g_file_begin(R8_ONE, R8_1EM9);
  g_cell_begin(cn);
#if ELEM == 0          /* BOUNDARY: 3 distinct vertices + closing point */
  ASSUME(!(x[0] == x[2] && y[0] == y[2]));
  g_none(G_BOUNDARY);
#if WITH_FLAGS
  g_bits(G_ELFLAGS, nd_u16()); g_i32(G_PLEX, nd_u32());
#endif
  g_i16(G_LAYER, layer); g_i16(G_DATATYPE, dtype);
  g_rec(G_XY, GT_I32, 32); for (int i = 0; i < 3; i++) { g_u32((uint32_t)x[i]); g_u32((uint32_t)y[i]); } g_u32((uint32_t)x[0]); g_u32((uint32_t)y[0]);
  g_none(G_ENDEL);
#elif ELEM == 1        /* BOX: 5 points, BOXTYPE */
  g_none(G_BOX); g_i16(G_LAYER, layer); g_i16(G_BOXTYPE, dtype);
  ASSUME(x[0] != x[1] && y[0] != y[1]);
  g_rec(G_XY, GT_I32, 40); g_u32((uint32_t)x[0]); g_u32((uint32_t)y[0]); g_u32((uint32_t)x[1]); g_u32((uint32_t)y[0]); g_u32((uint32_t)x[1]); g_u32((uint32_t)y[1]); g_u32((uint32_t)x[0]); g_u32((uint32_t)y[1]); g_u32((uint32_t)x[0]); g_u32((uint32_t)y[0]);
  g_none(G_ENDEL);
#elif ELEM == 2        /* TEXT with PRESENTATION, STRANS (reflection bit symbolic), optional MAG = 2, ANGLE = 90 */
  uint8_t ch = (uint8_t)nd_range('a', 'z'); uint16_t pres = nd_u16(); int refl = nd_bool();
  g_none(G_TEXT); g_i16(G_LAYER, layer); g_i16(G_TEXTTYPE, dtype); g_bits(G_PRESENTATION, pres);
  g_bits(G_STRANS, refl ? 0x8000 : 0);
#if WITH_MAG
  g_real(G_MAG, R8_TWO);
#endif
#if WITH_ANGLE
  g_real(G_ANGLE, R8_90);
#endif
  g_rec(G_XY, GT_I32, 8); g_u32((uint32_t)x[0]); g_u32((uint32_t)y[0]);
  g_str1(G_STRING, ch); g_none(G_ENDEL);
#elif ELEM == 3        /* SREF to a cell defined later in the file, STRANS/MAG/ANGLE as above */
  int refl = nd_bool(); uint8_t tn = 'D';
  g_none(G_SREF); g_str1(G_SNAME, tn); g_bits(G_STRANS, refl ? 0x8000 : 0);
#if WITH_MAG
  g_real(G_MAG, R8_HALF);
#endif
#if WITH_ANGLE
  g_real(G_ANGLE, R8_90);
#endif
  g_rec(G_XY, GT_I32, 8); g_u32((uint32_t)x[0]); g_u32((uint32_t)y[0]); g_none(G_ENDEL);
  g_cell_end(); g_cell_begin(tn);
#endif
  g_cell_end(); g_file_end();
  uint8_t fname[2] = {'f', 0}; uint32_t err = 0; Lib lib = {0};
  READ_GDS(&lib, fname, 0.0, 0.0, (void*)0, &err);
  CHECK((err == 0 || (WITH_FLAGS && err == 5 /* UnsupportedRecord: ELFLAGS / PLEX are skipped with a warning code */)) && vf_open_count == 0, "loads (at most the unsupported-record warning for skipped records), handle released");
  CHECK(lib.f0 && lib.f0[0] == 'L' && lib.f0[1] == 0, "library name");
  CHECK(lib.f2 == 1e-9 && lib.f1 == 1e-9, "precision and unit from UNITS");
  CHECK(lib.f3.f1 == (ELEM == 3 ? 2 : 1), "cells");
  Cell* c = lib_cell(&lib, 0);
  CHECK(c->f0[0] == cn && c->f0[1] == 0, "cell name");
#if ELEM == 0 || ELEM == 1
  CHECK(c->f1.f1 == 1 && c->f2.f1 == 0 && c->f3.f1 == 0 && c->f5.f1 == 0, "exactly one polygon, nothing else");
  Poly* p = ((Poly**)c->f1.f2)[0]; double* q = (double*)p->f1.f2;
  CHECK(p->f0 == TAG(layer, dtype), "layer and data type");
#if ELEM == 0
  CHECK(p->f1.f1 == 3, "closing point dropped");
  for (int i = 0; i < 3; i++) CHECK(q[2 * i] == (double)x[i] && q[2 * i + 1] == (double)y[i], "vertices");
#else
  CHECK(p->f1.f1 == 4, "box: four corners");
  CHECK(q[0] == (double)x[0] && q[1] == (double)y[0] && q[2] == (double)x[1] && q[3] == (double)y[0] && q[4] == (double)x[1] && q[5] == (double)y[1] && q[6] == (double)x[0] && q[7] == (double)y[1], "box corners in stream order");
#endif
  CHECK(p->f2.f0 == 0 && p->f3 == 0, "no repetition, no properties");
#elif ELEM == 2
  CHECK(c->f5.f1 == 1 && c->f1.f1 == 0 && c->f2.f1 == 0, "exactly one label");
  Label* l = ((Label**)c->f5.f2)[0];
  CHECK(l->f0 == TAG(layer, dtype) && l->f1[0] == ch && l->f1[1] == 0, "tag and text");
  CHECK(VXD(l->f2) == (double)x[0] && VYD(l->f2) == (double)y[0], "position");
  CHECK(l->f3 == (uint32_t)(pres & 0xf), "anchor = low nibble of PRESENTATION");
  CHECK((l->f6 & 1) == refl, "reflection bit");
  CHECK(l->f5 == (WITH_MAG ? 2.0 : 1.0), "magnification (default 1)");
  CHECK(l->f4 == (WITH_ANGLE ? 3.14159265358979323846 / 180.0 * 90.0 : 0.0), "rotation in radians (default 0)");
#elif ELEM == 3
  CHECK(c->f2.f1 == 1 && c->f1.f1 == 0 && c->f5.f1 == 0, "exactly one reference");
  Ref* r = ((Ref**)c->f2.f2)[0]; Cell* t = lib_cell(&lib, 1);
  CHECK(t->f0[0] == tn, "second cell");
  CHECK(r->f0 == 0 && *(Cell**)&r->f1 == t, "the by-name reference is resolved to the cell of that name at ENDLIB");
  CHECK(VXD(r->f2) == (double)x[0] && VYD(r->f2) == (double)y[0], "origin");
  CHECK((r->f5 & 1) == refl && r->f4 == (WITH_MAG ? 0.5 : 1.0) && r->f3 == (WITH_ANGLE ? 3.14159265358979323846 / 180.0 * 90.0 : 0.0), "reflection, magnification, rotation");
  CHECK(r->f6.f0 == 0, "no repetition");
#endif
  WITNESS_POINT();
  return 0;
}
