/* C03: the record length of a GDSII record is an UNSIGNED 16-bit big-endian count of bytes including the 4 header bytes: the real
   gdsii_read_record accepts every complete record of 4..65533 bytes into the 65537-byte buffer all gdstk readers use, reports
   that length, leaves the stream exactly behind the record, and reports an error when the stream ends inside it. Lengths and
   positions only: the payload copy is modelled in bulk (engine/env/vfile.h, VF_BULK_FREAD); payload delivery is C18 record_reader. */
#include "prologue.h"
#define VF_CAP 65600
#define VF_NFILES 1
#define VF_BULK_FREAD
#include "vfile.h"
#define BUFSZ 65537
int main(void) {
  uint64_t slen = (uint64_t)nd_range(0, 65599);                 /* stream length and the four header bytes symbolic */
  for (int i = 0; i < 4; i++) vf_files[0].data[i] = nd_u8();
  vf_files[0].len = slen;
  uint8_t fname[2] = {'f', 0}, mode[3] = {'r', 'b', 0};
  VF* in = VFN(fopen)(fname, mode);
  uint8_t* buf = malloc(BUFSZ);
  uint64_t count = BUFSZ;
  uint32_t rc = _ZN5gdstk17gdsii_read_recordEP8_IO_FILEPhRm(in, buf, &count);
  uint32_t L = (uint32_t)vf_files[0].data[0] << 8 | vf_files[0].data[1];
  OBS("rc", rc); OBS("count", count); OBS("pos", VFN(ftell)(in));
  if (slen >= 4 && L >= 4 && L <= 65533 && (uint64_t)L <= slen) {
    CHECK(rc == 0, "a complete record of 4..65533 bytes is accepted");
    CHECK(count == L, "the reported count is the unsigned 16-bit record length");
    CHECK(VFN(ftell)(in) == L, "the stream is left exactly behind the record");
    CHECK(*(uint16_t*)buf == (uint16_t)L && buf[2] == vf_files[0].data[2] && buf[3] == vf_files[0].data[3], "header delivered (length in host order, type bytes verbatim)");
  } else if (L <= 65533) {
    CHECK(rc != 0, "a record the stream does not contain completely (or an impossible length < 4) is reported as an error");
  }
  VFN(fclose)(in);
  WITNESS_POINT();
  return 0;
}
