/* C03 / C01 (writer direction): Reference::to_gds for an array reference. The AREF record it writes - COLROW (columns, rows) and
   three corner points P0, P1 = P0 + columns * (column pitch), P2 = P0 + rows * (row pitch) - must denote exactly the instance
   positions of the repetition, with the column pitch along the reference's rotated x axis and the row pitch along its rotated y
   axis, as the stream format requires. Integer-exact model; axis-aligned lattices (normalisation exact); rotation 0 or 90 degrees
   fixed by the variant; pitches, counts-independent values and origin symbolic. */
#include "harness.h"
uint64_t my_strlen1(uint8_t* s);
#include "prologue.h"
#define VF_CAP 96
#include "vfile.h"
#include "C11/rep.h"
#include "C10/common.h"
#define HAVE_IE_SQRT
#include "ie_nolibm.h"
typedef struct S_struct_gdstk__Reference Ref;
typedef struct S_struct_gdstk__Cell Cell;
#ifndef REAL
uint64_t my_strlen1(uint8_t* s) { return 1; }
/* exact square root: the harness only produces perfect squares (axis-aligned lattice vectors) */
NUM ie_sqrt(NUM x) { IR_ASSERT(x >= 0, "sqrt of a negative"); int64_t r = nd_range(0, 64); ASSUME((NUM)(r * r) == x); return (NUM)r; }
uint8_t _ZN5gdstk24is_multiple_of_pi_over_2EdRl(NUM angle, uint64_t* m) { *m = ROT90 ? 1 : 0; return 1; }     /* variants use multiples of 90 degrees only */
uint64_t _ZN5gdstk22gdsii_real_from_doubleEd(NUM v) { return 0x1234; }                                              /* real encoding: C19 */
#endif
static uint32_t d16(uint64_t p) { return (uint32_t)vf_files[0].data[p] << 8 | vf_files[0].data[p + 1]; }
static int32_t d32(uint64_t p) { return (int32_t)(d16(p) << 16 | d16(p + 2)); }
int main(void) {
  Cell target = {0}; uint8_t tn[2] = {'D', 0}; target.f0 = tn;
  Ref ref = {0}; ref.f0 = 0; *(Cell**)&ref.f1 = &target;
  OI ox = (OI)nd_range(-20, 20), oy = (OI)nd_range(-20, 20);
  VX(ref.f2) = NUM_OF_INT(ox); VY(ref.f2) = NUM_OF_INT(oy); ref.f4 = NUM_OF_INT(1); ref.f5 = 0;
  /* ROT90: the reference is rotated by 90 degrees: cos = 0, sin = 1, classified as the multiple m = 1. The angle VALUE is kept 0 in
     this model (the degree conversion factor 180/pi is not an integer); the ANGLE record itself is the subject of C19 and of the reader obligations. */
  if (ROT90) { C_ = 0; S_ = 1; } else { C_ = 1; S_ = 0; }
  ref.f3 = NUM_OF_INT(0);
  /* lattice: KIND 1 rectangular (pitches along parent x / y), KIND 2 regular with v1 = (0, a), v2 = (b, 0) (columns along y) */
  OI a = (OI)nd_range(-6, 6), b = (OI)nd_range(-6, 6); ASSUME(a != 0 && b != 0);
  { Rep z = {0}; ref.f6 = z; } ref.f6.f0 = KIND; rep_u(&ref.f6)[0] = COLS; rep_u(&ref.f6)[1] = ROWS;
  OI v1x, v1y, v2x, v2y;
  if (KIND == 1) { ASSUME(a > 0 && b > 0); rep_num(&ref.f6)[0] = NUM_OF_INT(a); rep_num(&ref.f6)[1] = NUM_OF_INT(b); v1x = a; v1y = 0; v2x = 0; v2y = b; }
  else { rep_num(&ref.f6)[0] = NUM_OF_INT(0); rep_num(&ref.f6)[1] = NUM_OF_INT(a); rep_num(&ref.f6)[2] = NUM_OF_INT(b); rep_num(&ref.f6)[3] = NUM_OF_INT(0); v1x = 0; v1y = a; v2x = b; v2y = 0; }
  uint8_t fname[2] = {'f', 0}, mode[3] = {'w', 'b', 0}; VF* out = VFN(fopen)(fname, mode);
  uint32_t err = _ZNK5gdstk9Reference6to_gdsEP8_IO_FILEd(&ref, out, NUM_OF_INT(1));
  VFN(fclose)(out);
  CHECK(err == 0, "no error");
  /* decode: AREF, SNAME, [STRANS, ANGLE when rotated], COLROW, XY(3 points), ENDEL */
  uint64_t p = 0;
  CHECK(d16(p) == 4 && vf_files[0].data[p + 2] == 0x0b, "an array reference (AREF), not expanded single references"); p += 4;
  CHECK(d16(p) == 6 && vf_files[0].data[p + 2] == 0x12 && vf_files[0].data[p + 4] == 'D', "SNAME"); p += 6;
  CHECK(d16(p) == 8 && vf_files[0].data[p + 2] == 0x13, "COLROW"); OI cols = (OI)d16(p + 4), rows = (OI)d16(p + 6); p += 8;
  CHECK(d16(p) == 28 && vf_files[0].data[p + 2] == 0x10, "XY with three points");
  OI x0 = d32(p + 4), y0 = d32(p + 8), x1 = d32(p + 12), y1 = d32(p + 16), x2 = d32(p + 20), y2 = d32(p + 24); p += 28;
  CHECK(d16(p) == 4 && vf_files[0].data[p + 2] == 0x11 && p + 4 == vf_files[0].len, "ENDEL ends the element");
  OBS("cols", cols); OBS("rows", rows); OBS("x1", x1); OBS("y1", y1); OBS("x2", x2); OBS("y2", y2);
  CHECK(x0 == ox && y0 == oy, "first point = origin");
  CHECK(cols > 0 && rows > 0 && (x1 - x0) % cols == 0 && (y1 - y0) % cols == 0 && (x2 - x0) % rows == 0 && (y2 - y0) % rows == 0, "corner displacements are whole multiples of the counts");
  OI cx = (x1 - x0) / cols, cy = (y1 - y0) / cols, rx = (x2 - x0) / rows, ry = (y2 - y0) / rows;       /* column / row pitch as a reader reconstructs them */
  CHECK(cx * (-S_) + cy * C_ == 0, "the column pitch lies along the reference's rotated x axis");
  CHECK(rx * C_ + ry * S_ == 0, "the row pitch lies along the reference's rotated y axis");
  /* the instance positions denoted by the record are exactly the repetition's offsets (as multisets) */
  for (int i = 0; i < COLS; i++) for (int j = 0; j < ROWS; j++) { OI wx = i * v1x + j * v2x, wy = i * v1y + j * v2y; int want = 0, have = 0;
    for (int k = 0; k < COLS; k++) for (int l = 0; l < ROWS; l++) if (k * v1x + l * v2x == wx && k * v1y + l * v2y == wy) want++;
    for (int k = 0; k < 4; k++) for (int l = 0; l < 4; l++) if (k < cols && l < rows && k * cx + l * rx == wx && k * cy + l * ry == wy) have++;
    CHECK(want == have, "the AREF denotes exactly the instance positions of the repetition"); }
  CHECK(cols * rows == COLS * ROWS && cols <= 3 && rows <= 3, "same number of instances");
  WITNESS_POINT();
  return 0;
}
