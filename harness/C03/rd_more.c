/* C03 (reader direction), further record kinds: PATH with every PATHTYPE and begin/end extensions and signed WIDTH,
   AREF with COLROW (unrotated lattice), GDSII properties (PROPATTR/PROPVALUE, odd and even value lengths),
   XY split over two records, UNITS with user unit 1e-3 and an explicit target unit. Spec encoder: harness/gds_spec.h. */
#include "harness.h"
double my_exp2(double); double uf_div(double, double);
#include "prologue.h"
#define VF_CAP 360
#include "vfile.h"
#include "libm.h"
#include "ufdiv.h"
#include "gds_spec.h"
#include "gds_read.h"
#ifdef MODEL_BIT
#include <math.h>
#endif
#define CR (1 << 16)
int main(void) {
  uint16_t layer = nd_u16(), dtype = nd_u16(); ASSUME(layer < 32768 && dtype < 32768);
  int32_t x[4], y[4]; for (int i = 0; i < 4; i++) { x[i] = (int32_t)nd_range(-CR, CR); y[i] = (int32_t)nd_range(-CR, CR); }
#if ELEM == 8
  g_file_begin(R8_1EM3, R8_1EM9);       /* database unit = 1e-3 user units = 1e-9 m */
#else
  g_file_begin(R8_ONE, R8_1EM9);
#endif
  g_cell_begin('A');
#if ELEM == 4          /* PATH: two Manhattan segments, PATHTYPE variant PT (-1 = absent), signed width, extensions when PT == 4 */
  int32_t w = (int32_t)nd_range(-1000, 1000) * 2; int32_t e0 = (int32_t)nd_range(0, 1000), e1 = (int32_t)nd_range(0, 1000);
  int32_t px[3] = {x[0], x[1], x[1]}, py[3] = {y[0], y[0], y[1]}; ASSUME(x[0] != x[1] && y[0] != y[1]);
  g_none(G_PATH); g_i16(G_LAYER, layer); g_i16(G_DATATYPE, dtype);
#if PT >= 0
  g_i16(G_PATHTYPE, PT);
#endif
  g_i32(G_WIDTH, (uint32_t)w);
#if PT == 4
  g_i32(G_BGNEXTN, (uint32_t)e0); g_i32(G_ENDEXTN, (uint32_t)e1);
#endif
  g_rec(G_XY, GT_I32, 24); for (int i = 0; i < 3; i++) { g_u32((uint32_t)px[i]); g_u32((uint32_t)py[i]); }
  g_none(G_ENDEL);
#elif ELEM == 5        /* AREF 2 columns x 3 rows, no rotation: three corner points */
  int32_t sx = (int32_t)nd_range(1, 1000), sy = (int32_t)nd_range(1, 1000);
  g_none(G_AREF); g_str1(G_SNAME, 'D'); g_rec(G_COLROW, GT_I16, 4); g_u16(2); g_u16(3);
  g_rec(G_XY, GT_I32, 24); g_u32((uint32_t)x[0]); g_u32((uint32_t)y[0]); g_u32((uint32_t)(x[0] + 2 * sx)); g_u32((uint32_t)y[0]); g_u32((uint32_t)x[0]); g_u32((uint32_t)(y[0] + 3 * sy));
  g_none(G_ENDEL); g_cell_end(); g_cell_begin('D');
#elif ELEM == 6        /* BOUNDARY with two properties: value "v" (odd length, padded) and "wz" (even length) */
  uint16_t a0 = nd_u16(), a1 = nd_u16(); ASSUME(a0 != a1); uint8_t v0 = (uint8_t)nd_range('a', 'z'), v1 = (uint8_t)nd_range('a', 'z'), v2 = (uint8_t)nd_range('a', 'z');
  ASSUME(!(x[0] == x[2] && y[0] == y[2]));
  g_none(G_BOUNDARY); g_i16(G_LAYER, layer); g_i16(G_DATATYPE, dtype);
  g_rec(G_XY, GT_I32, 32); for (int i = 0; i < 3; i++) { g_u32((uint32_t)x[i]); g_u32((uint32_t)y[i]); } g_u32((uint32_t)x[0]); g_u32((uint32_t)y[0]);
  g_i16(G_PROPATTR, a0); g_str1(G_PROPVALUE, v0); g_i16(G_PROPATTR, a1); g_str2(G_PROPVALUE, v1, v2);
  g_none(G_ENDEL);
#elif ELEM == 7        /* BOUNDARY whose XY list is split over two records (2 + 2 points) */
  ASSUME(!(x[0] == x[2] && y[0] == y[2]));
  g_none(G_BOUNDARY); g_i16(G_LAYER, layer); g_i16(G_DATATYPE, dtype);
  g_rec(G_XY, GT_I32, 16); for (int i = 0; i < 2; i++) { g_u32((uint32_t)x[i]); g_u32((uint32_t)y[i]); }
  g_rec(G_XY, GT_I32, 16); g_u32((uint32_t)x[2]); g_u32((uint32_t)y[2]); g_u32((uint32_t)x[0]); g_u32((uint32_t)y[0]);
  g_none(G_ENDEL);
#elif ELEM == 8        /* label position under UNITS (1e-3, 1e-9), native and with target unit */
  g_none(G_TEXT); g_i16(G_LAYER, layer); g_i16(G_TEXTTYPE, dtype); g_rec(G_XY, GT_I32, 8); g_u32((uint32_t)x[0]); g_u32((uint32_t)y[0]); g_str1(G_STRING, 't'); g_none(G_ENDEL);
#endif
  g_cell_end(); g_file_end();
  uint8_t fname[2] = {'f', 0}; uint32_t err = 0; Lib lib = {0};
#if ELEM == 8 && TARGET
  READ_GDS(&lib, fname, 1e-9, 0.0, (void*)0, &err);      /* target unit = the database unit: coordinates are the stream integers */
#else
  READ_GDS(&lib, fname, 0.0, 0.0, (void*)0, &err);
#endif
  CHECK(err == 0 && vf_open_count == 0, "loads without error, handle released");
  Cell* c = lib_cell(&lib, 0);
#if ELEM == 4
  CHECK(c->f3.f1 == 1 && c->f1.f1 == 0, "exactly one path");
  FPath* p = ((FPath**)c->f3.f2)[0]; FElem* el = p->f1; double* sp = (double*)p->f0.f0.f2; double* wo = (double*)el->f1.f2;
  CHECK(p->f2 == 1 && (p->f3 & 1) == 1, "one element, simple path");
  CHECK(el->f0 == TAG(layer, dtype), "layer and data type");
  CHECK(p->f0.f0.f1 == 3 && el->f1.f1 == 3, "three spine points, one width/offset entry each");
  for (int i = 0; i < 3; i++) { CHECK(sp[2 * i] == (double)px[i] && sp[2 * i + 1] == (double)py[i], "centre line");
    CHECK(wo[2 * i] == (double)(w < 0 ? -w : w) / 2 && wo[2 * i + 1] == 0.0, "half width = |WIDTH| / 2, no offset"); }
  CHECK((p->f4 & 1) == (w >= 0), "negative WIDTH means absolute (unscaled) width");
  CHECK(el->f5 == (PT == 1 ? 1u : PT == 2 ? 2u : PT == 4 ? 3u : 0u), "end style from PATHTYPE (absent or 0: flush, 1 round, 2 half-width, 4 extended)");
#if PT == 4
  CHECK(VXD(el->f6) == (double)e0 && VYD(el->f6) == (double)e1, "begin / end extensions");
#endif
#elif ELEM == 5
  CHECK(lib.f3.f1 == 2 && c->f2.f1 == 1, "two cells, one reference");
  Ref* r = ((Ref**)c->f2.f2)[0];
  CHECK(r->f0 == 0 && *(Cell**)&r->f1 == lib_cell(&lib, 1), "array reference resolved");
  CHECK(VXD(r->f2) == (double)x[0] && VYD(r->f2) == (double)y[0], "origin = first corner");
  CHECK(r->f6.f0 == 1, "unrotated array: rectangular repetition");
  { uint64_t* u = (uint64_t*)((uint8_t*)&r->f6 + 8); double* sp = (double*)(u + 2);
    CHECK(u[0] == 2 && u[1] == 3, "columns and rows from COLROW");
    CHECK(sp[0] == (double)sx && sp[1] == (double)sy, "pitch = corner displacement / count"); }
#elif ELEM == 6
  CHECK(c->f1.f1 == 1, "one polygon");
  Poly* p = ((Poly**)c->f1.f2)[0]; CHECK(p->f1.f1 == 3 && p->f0 == TAG(layer, dtype), "polygon");
  { PVal* g0 = _ZN5gdstk16get_gds_propertyEPNS_8PropertyEt((Prop*)p->f3, a0); PVal* g1 = _ZN5gdstk16get_gds_propertyEPNS_8PropertyEt((Prop*)p->f3, a1);
    CHECK(g0 && g1, "both attributes present");
    uint64_t* c0 = (uint64_t*)((uint8_t*)g0 + 8); uint8_t* b0 = *(uint8_t**)((uint8_t*)g0 + 16); uint64_t* c1 = (uint64_t*)((uint8_t*)g1 + 8); uint8_t* b1 = *(uint8_t**)((uint8_t*)g1 + 16);
    CHECK(b0[0] == v0 && b0[1] == 0 && *c0 == 2, "odd-length value: padding NUL is the terminator");
    CHECK(b1[0] == v1 && b1[1] == v2 && b1[2] == 0 && *c1 == 3, "even-length value gets a terminator"); }
#elif ELEM == 7
  CHECK(c->f1.f1 == 1, "one polygon");
  Poly* p = ((Poly**)c->f1.f2)[0]; double* q = (double*)p->f1.f2;
  CHECK(p->f1.f1 == 3, "points of both XY records, closing point dropped");
  for (int i = 0; i < 3; i++) CHECK(q[2 * i] == (double)x[i] && q[2 * i + 1] == (double)y[i], "vertices in stream order");
#elif ELEM == 8
  Label* l = ((Label**)c->f5.f2)[0];
  CHECK(lib.f2 == 1e-9, "precision = database unit in metres");
#if TARGET
  CHECK(lib.f1 == 1e-9, "unit = requested target unit");
  CHECK(VXD(l->f2) == (1e-9 / 1e-9) * (double)x[0] && VYD(l->f2) == (1e-9 / 1e-9) * (double)y[0], "coordinates rescaled to the target unit");
#else
  CHECK(lib.f1 == 1e-9 / 1e-3, "unit = metres per database unit / user units per database unit");
  CHECK(VXD(l->f2) == 1e-3 * (double)x[0] && VYD(l->f2) == 1e-3 * (double)y[0], "coordinates in user units");
#endif
#endif
  WITNESS_POINT();
  return 0;
}
