/* C18: gds_units / gds_timestamp (read mode) / gds_info on a truncated file: the call returns, releases its handle, and either
   reports an error or - units and timestamp only - returns exactly the values of the record it had already seen. */
#include "harness.h"
double my_exp2(double); double uf_div(double, double);
#include "prologue.h"
#include "vfile.h"
#include "libm.h"
#include "ufdiv.h"
#ifdef REAL
#define uf_div(a, b) ((a) / (b))
#endif
/* digits: 1 HEADER, 2 BGNLIB, 3 LIBNAME, 4 UNITS, 5 BGNSTR, 6 STRNAME, 7 BOUNDARY, 8 LAYER, 9 DATATYPE */
static const uint8_t KINDS[10] = {0, 0x00, 0x01, 0x02, 0x03, 0x05, 0x06, 0x08, 0x0d, 0x0e};
static const int PAYLEN[10] = {0, 2, 24, 2, 16, 24, 2, 0, 2, 2};
#define PAYLOAD_MAX 24
static uint8_t pay[8][PAYLOAD_MAX];
static uint8_t script_payload(int digit, int pos, uint32_t i) { uint8_t b = digit == 6 ? (i == 0 ? (uint8_t)nd_range('a', 'c') : 0) : nd_u8(); pay[pos][i] = b; return b; }
#include "C18/script.h"
static int first_pos(int digit) { int K = script_len(); for (int k = 0; k < K; k++) if ((SCRIPT / P10[K - 1 - k]) % 10 == digit) return k; return -1; }
static uint64_t be64(const uint8_t* p) { uint64_t v = 0; for (int i = 0; i < 8; i++) v = v << 8 | p[i]; return v; }
static uint32_t be16(const uint8_t* p) { return (uint32_t)p[0] << 8 | p[1]; }
int main(void) {
  uint8_t fname[2] = {'f', 0};
#ifdef REAL
  script_build_file();
#endif
#if READER == 0
  double unit = -1, prec = -1; uint32_t rc = _ZN5gdstk9gds_unitsEPKcRdS2_(fname, &unit, &prec);
  int up = first_pos(4);
  if (up >= 0) { double p = _ZN5gdstk20gdsii_real_to_doubleEm(be64(&pay[up][8])), q = _ZN5gdstk20gdsii_real_to_doubleEm(be64(&pay[up][0]));
    CHECK(rc == 0, "the UNITS record was read completely: success");
    CHECK(bc_f_i64(prec) == bc_f_i64(p) && (q != q || p != p || bc_f_i64(unit) == bc_f_i64(uf_div(p, q))), "exactly the values of that record"); }
  else CHECK(rc != 0, "cut before UNITS: an error is reported");
#elif READER == 1
  struct S_struct_tm t = {0}; uint32_t err = 0; _ZN5gdstk13gds_timestampEPKcPK2tmPNS_9ErrorCodeE(&t, fname, (struct S_struct_tm*)0, &err);
  int bp = first_pos(2);
  if (bp >= 0) { CHECK(err == 0, "the BGNLIB record was read completely: success");
    CHECK(t.f5 == be16(&pay[bp][0]) - 1900 && t.f4 == be16(&pay[bp][2]) - 1 && t.f3 == be16(&pay[bp][4]) && t.f2 == be16(&pay[bp][6]) && t.f1 == be16(&pay[bp][8]) && t.f0 == be16(&pay[bp][10]), "exactly the modification time of that record"); }
  else CHECK(err != 0, "cut before BGNLIB: an error is reported");
#elif READER == 2
  ARGT__ZN5gdstk8gds_infoEPKcRNS_11LibraryInfoE_1 info = {0}; uint32_t rc = _ZN5gdstk8gds_infoEPKcRNS_11LibraryInfoE(fname, &info);
  CHECK(rc != 0, "no ENDLIB seen: the summary is reported as an error, never as success");
#endif
  CHECK(vf_open_count == 0 && !vf_bad_use, "the file handle is released");
  WITNESS_POINT();
  return 0;
}
