/* C18: gdsii_read_record, the short-read detector every GDSII reader relies on: on an ARBITRARY stream it returns NoError only
   if the complete record (header + length-4 payload bytes) was available and delivered; otherwise it reports an error; it never
   stores more bytes than it reports and never writes beyond the caller's buffer_count. */
#include "prologue.h"
#define VF_CAP 16
#include "vfile.h"
#define BUFSZ 24
int main(void) {
  uint64_t slen = STREAMLEN;                                    /* stream length: enumerated (0..12), content symbolic */
  for (int i = 0; i < 12; i++) vf_files[0].data[i] = nd_u8();
  vf_files[0].len = slen;
  uint8_t fname[2] = {'f', 0}, mode[3] = {'r', 'b', 0};
  VF* in = VFN(fopen)(fname, mode);
  uint8_t buf[BUFSZ + 8]; for (int i = 0; i < BUFSZ + 8; i++) buf[i] = 0xEE;
  uint64_t cap = (uint64_t)nd_range(0, BUFSZ), count = cap;
  uint32_t rc = _ZN5gdstk17gdsii_read_recordEP8_IO_FILEPhRm(in, buf, &count);
  uint32_t L = (uint32_t)vf_files[0].data[0] << 8 | vf_files[0].data[1];
  OBS("rc", rc); OBS("count", count);
  for (int i = 0; i < BUFSZ + 8; i++) if ((uint64_t)i >= cap) CHECK(buf[i] == 0xEE, "nothing is written beyond the caller's buffer_count");
  if (rc == 0) {
    CHECK(slen >= 4 && L >= 4 && (uint64_t)L <= slen, "success only if the whole record was in the stream");
    CHECK(count == L, "buffer_count is the record length");
    CHECK(*(uint16_t*)buf == (uint16_t)L && buf[2] == vf_files[0].data[2] && buf[3] == vf_files[0].data[3], "header delivered (length in host order, type bytes verbatim)");
    for (int i = 4; i < 12; i++) if ((uint32_t)i < L) CHECK(buf[i] == vf_files[0].data[i], "payload delivered verbatim");
  } else {
    CHECK(!(slen >= 4 && L >= 4 && (uint64_t)L <= slen && cap >= 4 + (uint64_t)L), "a complete record that fits the buffer is not rejected");
    CHECK(count <= cap || cap < 4, "reported count never exceeds the buffer");
  }
  VFN(fclose)(in);
  WITNESS_POINT();
  return 0;
}
