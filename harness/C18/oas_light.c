/* C18: the light-weight OASIS queries on a truncated / arbitrary file: oas_precision and oas_validate return normally, touch no
   invalid memory, release their file handle on EVERY path however often they are called, and oas_validate reports success
   without error only when the stored signature equals the signature of the bytes present. */
#include "harness.h"
double my_trunc(double); double my_fabs(double);
#include "prologue.h"
#define VF_CAP 48
#include "vfile.h"
#include "zstub.h"
#include "libm.h"
#define NEXTRA 8
static const uint8_t MAGIC[14] = {'%', 'S', 'E', 'M', 'I', '-', 'O', 'A', 'S', 'I', 'S', '\r', '\n', 1};
int main(void) {
  uint64_t n = 0;
  for (int i = 0; i < 14; i++) vf_files[0].data[n++] = MAGIC[i];
#if OP == 0
  vf_files[0].data[n++] = VLEN;                       /* length byte of the version string: fixed by the variant (allocation size) */
  for (int i = 1; i < NEXTRA; i++) vf_files[0].data[n++] = nd_u8();
#else
  for (int i = 0; i < NEXTRA; i++) vf_files[0].data[n++] = nd_u8();
#endif
  uint64_t len = LEN;                                  /* the cut position: enumerated by the variant (every prefix length 0..22), bytes symbolic */
  vf_files[0].len = len;
  uint8_t fname[2] = {'f', 0};
#if OP == 0
  for (int rep = 0; rep < 2; rep++) { double prec = 0; uint32_t e = _ZN5gdstk13oas_precisionEPKcRd(fname, &prec); OBS("err", e);
    CHECK(vf_open_count == 0 && !vf_bad_use, "oas_precision released its file handle");
    CHECK(!(len < 14 + 1 + 3) || e != 0, "a file cut before the end of the version string is reported as an error"); }
  CHECK(vf_fopen_calls == 2, "two calls, two opens, none leaked");
#else
  for (int rep = 0; rep < 2; rep++) { uint32_t sig = 0, e = 0; uint8_t ok = _ZN5gdstk12oas_validateEPKcPjPNS_9ErrorCodeE(fname, &sig, &e) & 1; OBS("ok", ok); OBS("err", e);
    CHECK(vf_open_count == 0 && !vf_bad_use, "oas_validate released its file handle");
    if (ok && e == 0) {
      CHECK(len >= 14 + 4, "success needs the header and four signature bytes (the validation byte may coincide with the START byte)");
      uint8_t kind = vf_files[0].data[len - 5]; uint32_t stored = (uint32_t)vf_files[0].data[len - 4] | (uint32_t)vf_files[0].data[len - 3] << 8 | (uint32_t)vf_files[0].data[len - 2] << 16 | (uint32_t)vf_files[0].data[len - 1] << 24;
      uint32_t want = 0; for (uint64_t i = 0; i < 14 + NEXTRA; i++) if (i + 4 < len) want = kind == 1 ? ZSTUB_CRC_STEP(want, vf_files[0].data[i]) : want + vf_files[0].data[i];
      CHECK((kind == 1 || kind == 2) && stored == want && sig == want, "success only if the stored signature is the signature of the bytes present"); } }
#endif
  WITNESS_POINT();
  return 0;
}
