/* C18: read_gds on a truncated file: after any prefix of the records of a small valid file followed by a short read, the call
   returns, frees nothing twice, releases its handle, reports an error and returns an EMPTY library (never a shortened layout). */
#include "harness.h"
double my_exp2(double); double uf_div(double, double); uint64_t my_strlen1(uint8_t* s);
#include "prologue.h"
#include "vfile.h"
#include "libm.h"
#include "ufdiv.h"
/* digits: 1 HEADER, 2 LIBNAME, 3 UNITS, 4 BGNSTR, 5 STRNAME, 6 BOUNDARY, 7 LAYER, 8 XY (2 points), 9 ENDEL */
static const uint8_t KINDS[10] = {0, 0x00, 0x02, 0x03, 0x05, 0x06, 0x08, 0x0d, 0x10, 0x11};
static const int PAYLEN[10] = {0, 2, 2, 16, 4, 2, 0, 2, 16, 0};
static const uint8_t DTYPES[10] = {0, 2, 6, 5, 2, 6, 0, 2, 3, 0};
#define SCRIPT_DTYPE(d) DTYPES[d]
#define PAYLOAD_MAX 16
static uint8_t script_payload(int digit, int pos, uint32_t i) { return (digit == 2 || digit == 5) ? (i == 0 ? (uint8_t)nd_range('a', 'c') : 0) : nd_u8(); }
#include "C18/script.h"
#ifndef REAL
uint64_t my_strlen1(uint8_t* s) { return 1; }
#endif
typedef ARGT__ZN5gdstk8read_gdsEPKcddPKNS_3SetImEEPNS_9ErrorCodeE_0 Lib;
int main(void) {
  uint8_t fname[2] = {'f', 0}; uint32_t err = 0; Lib lib = {0};
#ifdef REAL
  script_build_file();
#endif
  _ZN5gdstk8read_gdsEPKcddPKNS_3SetImEEPNS_9ErrorCodeE(&lib, fname, 0.0, 0.0, (void*)0, &err);
  CHECK(err != 0, "an error is reported");
  CHECK(lib.f0 == 0 && lib.f3.f1 == 0 && lib.f3.f2 == 0 && lib.f4.f1 == 0, "the result is the empty library: a truncated file is never returned as a (shortened) layout");
  CHECK(vf_open_count == 0 && !vf_bad_use, "the file handle is released, exactly once");
  WITNESS_POINT();
  return 0;
}
