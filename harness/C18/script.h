/* gdsii_read_record by contract (C18, DESIGN.md 3.12): the next KLEN calls deliver successful records whose kinds are fixed by
   the variant (SCRIPT, one decimal digit per record, table KINDS[] in the harness) and whose datatype byte and payload bytes are
   ARBITRARY; the call after that reports a short read (InputFileError), as the real function does on a truncated file (that
   behaviour of the real function is the obligation record_reader). Every prefix of every file - valid or not - whose first
   records have these kinds is thereby covered. */
#ifndef SCRIPT_DTYPE
#define SCRIPT_DTYPE(digit) nd_u8()      /* data-type byte: arbitrary unless the harness fixes it */
#endif
static int script_pos, script_calls;
static const int P10[10] = {1, 10, 100, 1000, 10000, 100000, 1000000, 10000000, 100000000, 1000000000};
static int script_len(void) { int n = 0; for (int s = SCRIPT; s > 0; s /= 10) n++; return n; }
#ifndef REAL
uint32_t _ZN5gdstk17gdsii_read_recordEP8_IO_FILEPhRm(VF* in, uint8_t* buffer, uint64_t* buffer_count) {
  int K = script_len(); script_calls++;
  __CPROVER_assert(*buffer_count >= 4 + PAYLOAD_MAX, "reader passes its whole buffer");
  if (script_pos >= K) { *buffer_count = (uint64_t)nd_range(0, 3); return 12; /* InputFileError: end of file reached unexpectedly */ }
  int digit = (SCRIPT / P10[K - 1 - script_pos]) % 10; script_pos++;
  uint32_t len = 4 + (uint32_t)PAYLEN[digit];
  *(uint16_t*)buffer = (uint16_t)len; buffer[2] = KINDS[digit]; buffer[3] = SCRIPT_DTYPE(digit);
  for (uint32_t i = 0; i < PAYLOAD_MAX; i++) if (i < (uint32_t)PAYLEN[digit]) buffer[4 + i] = script_payload(digit, script_pos - 1, i);
  *buffer_count = len; return 0;
}
#else
/* REAL mode (replay): the same scripted prefix is laid down as the bytes of file 'f' and the real gdsii_read_record reads it;
   the file simply ends after the last scripted record, which is what a truncated file looks like */
static void script_build_file(void) {
  int K = script_len(); uint64_t p = 0;
  for (int k = 0; k < K; k++) { int digit = (SCRIPT / P10[K - 1 - k]) % 10; uint32_t len = 4 + (uint32_t)PAYLEN[digit];
    vf_files[0].data[p++] = (uint8_t)(len >> 8); vf_files[0].data[p++] = (uint8_t)len; vf_files[0].data[p++] = KINDS[digit]; vf_files[0].data[p++] = SCRIPT_DTYPE(digit);
    for (uint32_t i = 0; i < (uint32_t)PAYLEN[digit]; i++) vf_files[0].data[p++] = script_payload(digit, k, i); }
  { int extra = (int)nd_range(0, 3); for (int i = 0; i < extra; i++) vf_files[0].data[p++] = 0; }      /* a few bytes of the record that was cut */
  vf_files[0].len = p; script_calls = K + 1;
}
#endif
