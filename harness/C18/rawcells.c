/* C18: read_rawcells on a truncated file: after ANY prefix of records of the scripted kinds followed by a short read, the call
   returns, frees nothing twice, leaves no file handle open, reports an error and returns an EMPTY map (never a shortened layout). */
#include "harness.h"
uint64_t my_strlen1(uint8_t* s);
#include "prologue.h"
#include "vfile.h"
/* digits: 1 BGNSTR, 2 STRNAME, 3 ENDSTR, 4 SNAME, 5 any other record */
static const uint8_t KINDS[6] = {0, 0x05, 0x06, 0x07, 0x12, 0x08};
static const int PAYLEN[6] = {0, 4, 2, 0, 2, 4};     /* read_rawcells never looks into BGNSTR: 4 arbitrary bytes stand for its 24 */
#define PAYLOAD_MAX 4
static uint8_t script_payload(int digit, int pos, uint32_t i) {
  if (digit == 2 || digit == 4) return i == 0 ? (uint8_t)nd_range('a', 'c') : 0;     /* 1-character names, NUL padded to even length */
  return nd_u8();
}
#include "C18/script.h"
#ifndef REAL
static uint64_t* Hh;
uint64_t _ZN5gdstk4hashEPKc(uint8_t* k) { return Hh[k[0]] & 0xff; }
uint8_t* _ZN5gdstk11copy_stringEPKcPm(uint8_t* s, uint64_t* len) { __CPROVER_assert(s[0] != 0 && s[1] == 0, "1-character names"); uint8_t* r = malloc(2); r[0] = s[0]; r[1] = 0; if (len) *len = 2; return r; }
#endif
typedef ARGT__ZN5gdstk13read_rawcellsEPKcPNS_9ErrorCodeE_0 RMap;      /* returned through a hidden result pointer */
int main(void) {
#ifdef __CPROVER__
  uint64_t Hloc[256]; Hh = Hloc;
#endif
  uint8_t fname[2] = {'f', 0}; uint32_t err = 0; RMap m = {0};
#ifdef REAL
  script_build_file();
#endif
  _ZN5gdstk13read_rawcellsEPKcPNS_9ErrorCodeE(&m, fname, &err);
  CHECK(script_calls == script_len() + 1, "the reader stops at the first short read");
  CHECK(err != 0, "an error is reported");
  CHECK(m.f1 == 0 && m.f2 == 0, "the result is empty: a truncated file is never returned as a (shortened) set of cells");
  CHECK(vf_open_count == 0 && !vf_bad_use, "the file handle is released, exactly once");
  WITNESS_POINT();
  return 0;
}
