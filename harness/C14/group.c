/* C14: group queries relative to the single-polygon answer: Polygon::contain_all / contain_any and inside / all_inside /
   any_inside equal the conjunction / disjunction / per-point disjunction of Polygon::contain, which is replaced here by an
   ARBITRARY predicate that satisfies the proved lemma "contain implies inside the polygon's bounding box"
   (so the bounding-box pre-filters, including their missing y-max test, are decided for every possible contain). */
#include "prologue.h"
typedef struct S_struct_gdstk__Polygon Poly;
#ifndef NP
#define NP 2
#endif
#ifndef NQ
#define NQ 2
#endif
#define NV 3
#define R 3
static Poly polys[NP + 1]; static int64_t qx[NQ + 1], qy[NQ + 1]; static int T[NP + 1][NQ + 1];
static int calls;
#ifndef REAL
uint8_t _ZNK5gdstk7Polygon7containENS_4Vec2E(Poly* p, NUM x, NUM y) {
  calls++;
  for (int j = 0; j < NP; j++) if (p == &polys[j]) for (int i = 0; i < NQ; i++) if (NUM_EQ(x, NUM_OF_INT(qx[i])) && NUM_EQ(y, NUM_OF_INT(qy[i]))) return (uint8_t)T[j][i];
  CHECK(0, "contain called with a polygon or point that is not part of the query"); return 0;
}
#endif
static int64_t VX[NP + 1][NV], VY[NP + 1][NV];
/* exact winding / on-boundary oracle (the one contain_vs_winding proves Polygon::contain equal to): used under -DT_ORACLE
   to turn an abstract counterexample into one the real code reproduces */
static int oracle(int j, int64_t px, int64_t py) {
  int on = 0; int64_t wn = 0;
  for (int i = 0; i < NV; i++) { int k = (i + 1) % NV; int64_t ax = VX[j][i], ay = VY[j][i], bx = VX[j][k], by = VY[j][k];
    int64_t cr = (bx - ax) * (py - ay) - (by - ay) * (px - ax);
    int64_t lox = ax < bx ? ax : bx, hix = ax < bx ? bx : ax, loy = ay < by ? ay : by, hiy = ay < by ? by : ay;
    if (cr == 0 && px >= lox && px <= hix && py >= loy && py <= hiy) on = 1;
    if (ay <= py) { if (by > py && cr > 0) wn++; } else { if (by <= py && cr < 0) wn--; } }
  return on || wn != 0;
}
int main(void) {
  int64_t lo_x[NP + 1], hi_x[NP + 1], lo_y[NP + 1], hi_y[NP + 1];
  Poly* pp[NP + 1];
  for (int j = 0; j < NP; j++) { NUM* pts = malloc(sizeof(NUM) * 2 * NV); memset(&polys[j], 0, sizeof(Poly)); pp[j] = &polys[j];
    lo_x[j] = lo_y[j] = 100; hi_x[j] = hi_y[j] = -100;
    for (int k = 0; k < NV; k++) { int64_t x = nd_range(-R, R), y = nd_range(-R, R); pts[2 * k] = NUM_OF_INT(x); pts[2 * k + 1] = NUM_OF_INT(y); VX[j][k] = x; VY[j][k] = y;
      if (x < lo_x[j]) lo_x[j] = x; if (x > hi_x[j]) hi_x[j] = x; if (y < lo_y[j]) lo_y[j] = y; if (y > hi_y[j]) hi_y[j] = y; }
    polys[j].f1.f0 = NV; polys[j].f1.f1 = NV; polys[j].f1.f2 = (void*)pts; }
  NUM* qp = malloc(sizeof(NUM) * 2 * (NQ + 1));
  for (int i = 0; i < NQ; i++) { qx[i] = nd_range(-R - 1, R + 1); qy[i] = nd_range(-R - 1, R + 1); qp[2 * i] = NUM_OF_INT(qx[i]); qp[2 * i + 1] = NUM_OF_INT(qy[i]); }
  for (int j = 0; j < NP; j++) for (int i = 0; i < NQ; i++) { T[j][i] = nd_bool();
#if defined(REAL)
    T[j][i] = _ZNK5gdstk7Polygon7containENS_4Vec2E(&polys[j], NUM_OF_INT(qx[i]), NUM_OF_INT(qy[i])) & 1;      /* replay: the real predicate */
#elif defined(T_ORACLE)
    T[j][i] = oracle(j, qx[i], qy[i]);
#endif
    if (T[j][i]) ASSUME(qx[i] >= lo_x[j] && qx[i] <= hi_x[j] && qy[i] >= lo_y[j] && qy[i] <= hi_y[j]);          /* the lemma proved in contain_vs_winding */
    for (int k = 0; k < i; k++) if (qx[k] == qx[i] && qy[k] == qy[i]) ASSUME(T[j][i] == T[j][k]); }            /* a predicate: equal points, equal answers */
  ARGT__ZN5gdstk6insideERKNS_5ArrayINS_4Vec2EEERKNS0_IPNS_7PolygonEEEPb_0 parr; parr.f0 = NQ; parr.f1 = NQ; parr.f2 = (void*)qp;
  ARGT__ZN5gdstk6insideERKNS_5ArrayINS_4Vec2EEERKNS0_IPNS_7PolygonEEEPb_1 garr; garr.f0 = NP; garr.f1 = NP; garr.f2 = (void*)pp;
  int any_i[NQ + 1], all = 1, any = 0;
  for (int i = 0; i < NQ; i++) { any_i[i] = 0; for (int j = 0; j < NP; j++) any_i[i] |= T[j][i]; all &= any_i[i]; any |= any_i[i]; }
#if OP == 0
  uint8_t res[NQ + 1]; for (int i = 0; i <= NQ; i++) res[i] = 7;
  _ZN5gdstk6insideERKNS_5ArrayINS_4Vec2EEERKNS0_IPNS_7PolygonEEEPb(&parr, &garr, res);
  for (int i = 0; i < NQ; i++) CHECK((res[i] & 1) == any_i[i] && res[i] <= 1, "inside()[i] == OR over polygons of contain");
  CHECK(res[NQ] == 7, "result array not written beyond the point count");
#elif OP == 1
  uint8_t r = _ZN5gdstk10all_insideERKNS_5ArrayINS_4Vec2EEERKNS0_IPNS_7PolygonEEE(&parr, &garr) & 1;
  CHECK(r == all, "all_inside == AND over points of OR over polygons");
#elif OP == 2
  uint8_t r = _ZN5gdstk10any_insideERKNS_5ArrayINS_4Vec2EEERKNS0_IPNS_7PolygonEEE(&parr, &garr) & 1;
  CHECK(r == any, "any_inside == OR over points and polygons");
#elif OP == 3
  { int a0 = 1, o0 = 0; for (int i = 0; i < NQ; i++) { a0 &= T[0][i]; o0 |= T[0][i]; }
    uint8_t ra = _ZNK5gdstk7Polygon11contain_allERKNS_5ArrayINS_4Vec2EEE(&polys[0], &parr) & 1, ro = _ZNK5gdstk7Polygon11contain_anyERKNS_5ArrayINS_4Vec2EEE(&polys[0], &parr) & 1;
    CHECK(ra == a0, "contain_all == AND over points"); CHECK(ro == o0, "contain_any == OR over points"); }
#endif
  WITNESS_POINT();
  return 0;
}
