/* C14: Polygon::contain(point) == (point on an edge or vertex) || (winding number != 0), for EVERY vertex list of N
   vertices on the even-integer grid and every integer query point (= half-integer grid of the unscaled problem),
   including self-intersections, repeated vertices, horizontal edges through the query ordinate and N < 3.
   Integer-exact model: every double operation in the real code is asserted to stay an exact integer. */
#include "prologue.h"
#define CONTAIN _ZNK5gdstk7Polygon7containENS_4Vec2E
typedef struct S_struct_gdstk__Polygon Poly;
#ifndef N
#define N 3
#endif
#ifndef R
#define R 2
#endif
typedef int32_t OI;     /* oracle integers: |coordinates| <= 2R+1, products < 2^31 */
int main(void) {
  OI vx[N + 1], vy[N + 1]; NUM* pts = malloc(sizeof(NUM) * 2 * (N + 1));
  for (int i = 0; i < N; i++) { vx[i] = (OI)(2 * nd_range(-R, R)); vy[i] = (OI)(2 * nd_range(-R, R)); pts[2 * i] = NUM_OF_INT(vx[i]); pts[2 * i + 1] = NUM_OF_INT(vy[i]); }
  OI px = (OI)nd_range(-2 * R - 1, 2 * R + 1), py = (OI)nd_range(-2 * R - 1, 2 * R + 1);
  Poly poly = {0}; poly.f1.f0 = N; poly.f1.f1 = N; poly.f1.f2 = (void*)pts;
  uint8_t got = CONTAIN(&poly, NUM_OF_INT(px), NUM_OF_INT(py)) & 1;
  /* oracle: exact integers */
  int on = 0; OI wn = 0;
  for (int i = 0; i < N; i++) { int j = (i + 1) % N;
    OI ax = vx[i], ay = vy[i], bx = vx[j], by = vy[j];
    OI cr = (bx - ax) * (py - ay) - (by - ay) * (px - ax);
    OI lox = ax < bx ? ax : bx, hix = ax < bx ? bx : ax, loy = ay < by ? ay : by, hiy = ay < by ? by : ay;
    if (cr == 0 && px >= lox && px <= hix && py >= loy && py <= hiy) on = 1;
    if (ay <= py) { if (by > py && cr > 0) wn++; } else { if (by <= py && cr < 0) wn--; }
  }
  int want = N > 0 && (on || wn != 0);
  OBS("got", got); OBS("want", want);
  CHECK(got == want, "contain == on boundary or winding number non-zero");
  { OI lox = 1000, hix = -1000, loy = 1000, hiy = -1000; for (int i = 0; i < N; i++) { if (vx[i] < lox) lox = vx[i]; if (vx[i] > hix) hix = vx[i]; if (vy[i] < loy) loy = vy[i]; if (vy[i] > hiy) hiy = vy[i]; }
    CHECK(!got || (px >= lox && px <= hix && py >= loy && py <= hiy), "lemma: contain implies inside the vertex bounding box (used by the group-query obligation)"); }
  WITNESS_POINT();
  return 0;
}
