/* C14: signed_area / area / perimeter: shoelace sum, its magnitude, closed edge-length sum; zero below three vertices;
   area and perimeter multiplied by the repetition count. Coordinates on the even grid so that the 0.5 factor is exact.
   perimeter: Vec2::length is an arbitrary non-negative function of (dx, dy) (the square root is outside exact arithmetic). */
#include "prologue.h"
typedef struct S_struct_gdstk__Polygon Poly;
#ifndef N
#define N 3
#endif
#define R 3
typedef int32_t OI;
#ifndef REAL
static uint8_t (*LEN)[4 * R + 1];
static OI len_of(OI dx, OI dy) { return (OI)(LEN[(dx + 4 * R) / 2][(dy + 4 * R) / 2] & 31); }
NUM _ZNK5gdstk4Vec26lengthEv(struct S_struct_gdstk__Vec2* vv) { NUM* v = (NUM*)vv; return NUM_OF_INT(len_of((OI)NUM_TO_I64(v[0]), (OI)NUM_TO_I64(v[1]))); }
#endif
int main(void) {
  OI vx[N + 1], vy[N + 1]; NUM* pts = malloc(sizeof(NUM) * 2 * (N + 1));
  for (int i = 0; i < N; i++) { vx[i] = (OI)(2 * nd_range(-R, R)); vy[i] = (OI)(2 * nd_range(-R, R)); pts[2 * i] = NUM_OF_INT(vx[i]); pts[2 * i + 1] = NUM_OF_INT(vy[i]); }
  Poly poly = {0}; poly.f1.f0 = N; poly.f1.f1 = N; poly.f1.f2 = (void*)pts;
  OI copies = 1;
#if REP == 1     /* rectangular repetition columns x rows: count = columns * rows */
  { uint64_t cols = 2, rows = 3; poly.f2.f0 = 1; uint64_t* u = (uint64_t*)&poly.f2.f1; u[0] = cols; u[1] = rows; NUM* sp = (NUM*)(u + 2); sp[0] = NUM_OF_INT(4); sp[1] = NUM_OF_INT(6); copies = (OI)(cols * rows); }
#endif
  OI twice = 0; for (int i = 0; i < N; i++) { int j = (i + 1) % N; twice += vx[i] * vy[j] - vx[j] * vy[i]; }
  OI sa = N < 3 ? 0 : twice / 2;
#if OP == 0
  NUM a = _ZNK5gdstk7Polygon11signed_areaEv(&poly); OBS("signed_area", NUM_TO_I64(a));
  CHECK(NUM_EQ(a, NUM_OF_INT(sa)), "signed_area == shoelace sum (0 below three vertices)");
  NUM b = _ZNK5gdstk7Polygon4areaEv(&poly); OBS("area", NUM_TO_I64(b));
  CHECK(NUM_EQ(b, NUM_OF_INT((sa < 0 ? -sa : sa) * copies)), "area == |shoelace| x repetition count");
#elif OP == 1
#ifndef REAL
#ifdef __CPROVER__
  uint8_t lenloc[4 * R + 1][4 * R + 1];          /* uninitialised: an arbitrary length function */
  LEN = lenloc;
#else
  static uint8_t lenloc[4 * R + 1][4 * R + 1]; LEN = lenloc; for (int i = 0; i <= 4 * R; i++) for (int j = 0; j <= 4 * R; j++) lenloc[i][j] = (uint8_t)nd_range(0, 31);
#endif
  OI per = 0; for (int i = 0; i < N; i++) { int j = (i + 1) % N; per += len_of(vx[j] - vx[i], vy[j] - vy[i]); }
  if (N < 3) per = 0;
  NUM p = _ZNK5gdstk7Polygon9perimeterEv(&poly);
  CHECK(NUM_EQ(p, NUM_OF_INT(per * copies)), "perimeter == closed sum of edge lengths x repetition count (0 below three vertices)");
#endif
#endif
  WITNESS_POINT();
  return 0;
}
