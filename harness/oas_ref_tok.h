/* Reference access to what a gdstk OASIS writer emitted, for the harness-side decoders: in the solver model the typed token stream
   (engine/env/oastok.h), against the real code (REAL) the bytes themselves, decoded with the codecs of the specification
   (unsigned / signed integers, 2-, 3- and g-deltas). Include after oastok.h. */
#ifndef VERIF_OAS_REF_TOK_H
#define VERIF_OAS_REF_TOK_H
static int bad;                     /* the emitted list is not well formed */
#ifdef REAL
/* byte-level codecs of the specification (7.2 unsigned, 7.2.2 signed, 7.5 deltas), used only when the real writer produced bytes */
static uint8_t* rp; static uint8_t* rend;
static uint64_t rd_u(void) { uint64_t v = 0; int sh = 0; for (;;) { if (rp >= rend) { bad = 1; return 0; } uint8_t b = *rp++; v |= (uint64_t)(b & 0x7f) << sh; sh += 7; if (!(b & 0x80)) return v; } }
static uint8_t nx_byte(void) { if (rp >= rend) { bad = 1; return 0; } return *rp++; }
static uint64_t nx_uint(void) { return rd_u(); }
static int64_t nx_int(void) { uint64_t u = rd_u(); int64_t m = (int64_t)(u >> 1); return (u & 1) ? -m : m; }
static void nx_2d(int64_t* x, int64_t* y) { uint64_t u = rd_u(); int64_t m = (int64_t)(u >> 2); *x = *y = 0; switch (u & 3) { case 0: *x = m; break; case 1: *y = m; break; case 2: *x = -m; break; default: *y = -m; } }
static void oct(uint64_t dir, int64_t m, int64_t* x, int64_t* y) { static const int dx[8] = {1, 0, -1, 0, 1, -1, -1, 1}, dy[8] = {0, 1, 0, -1, 1, 1, -1, -1}; *x = dx[dir] * m; *y = dy[dir] * m; }
static void nx_3d(int64_t* x, int64_t* y) { uint64_t u = rd_u(); oct(u & 7, (int64_t)(u >> 3), x, y); }
static void nx_gd(int64_t* x, int64_t* y) { uint64_t u = rd_u(); if (!(u & 1)) { oct((u >> 1) & 7, (int64_t)(u >> 4), x, y); return; }
  int64_t m = (int64_t)(u >> 2); *x = (u & 2) ? -m : m; uint64_t w = rd_u(); m = (int64_t)(w >> 1); *y = (w & 1) ? -m : m; }
/* real, forms 0..7 of the specification */
static double nx_real(void) { uint64_t t = rd_u(); union { uint64_t u; double d; uint32_t w; float f; } c; c.u = 0;
  switch (t) { case 0: return (double)rd_u(); case 1: return -(double)rd_u(); case 2: return 1.0 / (double)rd_u(); case 3: return -1.0 / (double)rd_u();
    case 4: { double a = (double)rd_u(); return a / (double)rd_u(); } case 5: { double a = (double)rd_u(); return -a / (double)rd_u(); }
    case 6: for (int i = 0; i < 4; i++) c.w |= (uint32_t)nx_byte() << (8 * i); return (double)c.f;
    case 7: for (int i = 0; i < 8; i++) c.u |= (uint64_t)nx_byte() << (8 * i); return c.d;
    default: bad = 1; return 0; } }
static int nx_done(void) { return rp == rend; }
#else
static struct oas_tok nx(uint8_t kind) { struct oas_tok t = {0, 0, 0}; if (tok_k >= tok_n) { bad = 1; return t; } t = TOK[tok_k++]; if (t.kind != kind) bad = 1; return t; }
static uint8_t nx_byte(void) { return (uint8_t)nx(K_BYTE).a; }
static uint64_t nx_uint(void) { return nx(K_UINT).a; }
static int64_t nx_int(void) { return (int64_t)nx(K_INT).a; }
static void nx_2d(int64_t* x, int64_t* y) { struct oas_tok t = nx(K_2D); *x = (int64_t)t.a; *y = (int64_t)t.b; if (*x != 0 && *y != 0) bad = 1; }
static void nx_3d(int64_t* x, int64_t* y) { struct oas_tok t = nx(K_3D); *x = (int64_t)t.a; *y = (int64_t)t.b; if (*x != 0 && *y != 0 && *x != *y && *x != -*y) bad = 1; }
static void nx_gd(int64_t* x, int64_t* y) { struct oas_tok t = nx(K_GD); *x = (int64_t)t.a; *y = (int64_t)t.b; }
static double nx_real(void) { union { uint64_t u; double d; } c; c.u = nx(K_REAL).a; return c.d; }
static int nx_done(void) { return tok_k == tok_n; }
#endif
/* point list of types 0..4 -> vertices; (qx[0], qy[0]) is given; returns the vertex count (0 if malformed); closed: polygon (implicit vertex for the 1-delta types) */
static int ref_point_list(int closed, int maxn, int64_t* qx, int64_t* qy) {
  int nq = 1; uint8_t type = nx_byte(); uint64_t cnt = nx_uint();
  if (type > 4 || cnt < 1 || cnt > (uint64_t)maxn) { bad = 1; return 0; }
  for (int i = 0; i < maxn; i++) if ((uint64_t)i < cnt && nq <= maxn) { int64_t dx = 0, dy = 0;
    if (type == 0 || type == 1) { int64_t d = nx_int(); int horizontal = (type == 0) == (i % 2 == 0); if (horizontal) dx = d; else dy = d; }
    else if (type == 2) nx_2d(&dx, &dy); else if (type == 3) nx_3d(&dx, &dy); else nx_gd(&dx, &dy);
    qx[nq] = qx[nq - 1] + dx; qy[nq] = qy[nq - 1] + dy; nq++; }
  if (closed && (type == 0 || type == 1) && nq <= maxn) {        /* implicit vertex: the next delta keeps alternating and the closing edge is perpendicular to it */
    int horizontal = (type == 0) == (cnt % 2 == 0);
    if (horizontal) { qx[nq] = qx[0]; qy[nq] = qy[nq - 1]; } else { qx[nq] = qx[nq - 1]; qy[nq] = qy[0]; }
    nq++; }
  return nq; }
/* repetition field, types 1..11 of the specification -> the offsets it denotes, (0,0) first; returns their number (0 if malformed or more than maxn) */
/* an unsigned field used as a length: its value, which must be one (a negative number cast to unsigned is not) */
static int64_t nx_len(void) { uint64_t u = nx_uint(); if (u >> 62) { bad = 1; return 0; } return (int64_t)u; }
static int ref_repetition(int maxn, int64_t* ox, int64_t* oy) {
  uint8_t type = nx_byte(); int n = 0;
#define REF_PUT(x, y) do { if (n < maxn) { ox[n] = (x); oy[n] = (y); } n++; } while (0)
  if (type == 1 || type == 2 || type == 3) { uint64_t nx_ = 1, ny_ = 1; int64_t sx = 0, sy = 0;
    if (type != 3) nx_ = nx_uint() + 2; if (type == 1) ny_ = nx_uint() + 2; if (type == 3) ny_ = nx_uint() + 2;
    if (type != 3) sx = nx_len(); if (type != 2) sy = nx_len();
    if (nx_ > (uint64_t)maxn || ny_ > (uint64_t)maxn) { bad = 1; return 0; }
    for (int i = 0; i < maxn; i++) for (int j = 0; j < maxn; j++) if ((uint64_t)i < nx_ && (uint64_t)j < ny_) REF_PUT(i * sx, j * sy); }
  else if (type >= 4 && type <= 7) { uint64_t cnt = nx_uint() + 2; int64_t grid = (type == 5 || type == 7) ? nx_len() : 1, pos = 0;
    if (cnt > (uint64_t)maxn) { bad = 1; return 0; }
    REF_PUT(0, 0);
    for (int i = 1; i < maxn; i++) if ((uint64_t)i < cnt) { pos += grid * nx_len(); if (type <= 5) REF_PUT(pos, 0); else REF_PUT(0, pos); } }
  else if (type == 8) { uint64_t nn = nx_uint() + 2, mm = nx_uint() + 2; int64_t ax, ay, bx, by; nx_gd(&ax, &ay); nx_gd(&bx, &by);
    if (nn > (uint64_t)maxn || mm > (uint64_t)maxn) { bad = 1; return 0; }
    for (int i = 0; i < maxn; i++) for (int j = 0; j < maxn; j++) if ((uint64_t)i < nn && (uint64_t)j < mm) REF_PUT(i * ax + j * bx, i * ay + j * by); }
  else if (type == 9) { uint64_t nn = nx_uint() + 2; int64_t ax, ay; nx_gd(&ax, &ay);
    if (nn > (uint64_t)maxn) { bad = 1; return 0; }
    for (int i = 0; i < maxn; i++) if ((uint64_t)i < nn) REF_PUT(i * ax, i * ay); }
  else if (type == 10 || type == 11) { uint64_t cnt = nx_uint() + 2; int64_t grid = type == 11 ? nx_len() : 1, px = 0, py = 0;
    if (cnt > (uint64_t)maxn) { bad = 1; return 0; }
    REF_PUT(0, 0);
    for (int i = 1; i < maxn; i++) if ((uint64_t)i < cnt) { int64_t dx, dy; nx_gd(&dx, &dy); px += grid * dx; py += grid * dy; REF_PUT(px, py); } }
  else { bad = 1; return 0; }
#undef REF_PUT
  if (n > maxn) { bad = 1; return 0; }
  return n; }
#endif
