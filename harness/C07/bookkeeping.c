/* C07 (bookkeeping sentence): every FlexPath construction call keeps one width/offset entry per spine point for every element.
   One call of a construction wrapper from an ARBITRARY consistent path (so call sequences of any length are covered inductively);
   the Curve method the wrapper forwards to is replaced by its contract "appends K >= 0 points to the spine" (that the real Curve
   methods only append is part of C15). Checked: counts equal afterwards; the last entry is (width/2, offset) when given, else the
   previous last entry. Bit-precise doubles; interpolated intermediate values are not compared (i/K is inexact). */
#include "harness.h"
void curve_stub();
#include "prologue.h"
typedef struct S_struct_gdstk__FlexPath Path;
typedef struct S_struct_gdstk__FlexPathElement Elem;
typedef struct S_struct_gdstk__Curve Curve;
#define NE 2
#ifndef N0
#define N0 2
#endif
#ifndef REAL
static int stub_calls;
void curve_stub(c) Curve* c; {      /* contract of every Curve construction method: appends K points, touches nothing else of the path */
  stub_calls++;
  uint64_t n = c->f0.f1; double* old = (double*)c->f0.f2; double* nw = malloc(sizeof(double) * 2 * (n + K + 1));
  for (uint64_t i = 0; i < 2 * n; i++) nw[i] = old[i];
  for (int i = 0; i < 2 * K; i++) nw[2 * n + i] = (double)nd_range(-100, 100);
  c->f0.f2 = (void*)nw; c->f0.f1 = n + K; c->f0.f0 = n + K + 1;
}
#endif
int main(void) {
  Path path = {0}; double* sp = malloc(sizeof(double) * 2 * N0); for (int i = 0; i < 2 * N0; i++) sp[i] = (double)nd_range(-100, 100);
  path.f0.f0.f0 = N0; path.f0.f0.f1 = N0; path.f0.f0.f2 = (void*)sp; path.f0.f1 = 0.01;       /* curve tolerance (used by the real samplers in REAL mode) */
  Elem* el = calloc(NE, sizeof(Elem)); double last_w[NE], last_o[NE], ow[NE][N0], oo[NE][N0];
  for (int e = 0; e < NE; e++) { double* wo = malloc(sizeof(double) * 2 * N0); for (int i = 0; i < N0; i++) { wo[2 * i] = (double)nd_range(0, 50); wo[2 * i + 1] = (double)nd_range(-50, 50); ow[e][i] = wo[2 * i]; oo[e][i] = wo[2 * i + 1]; }
    el[e].f1.f0 = N0; el[e].f1.f1 = N0; el[e].f1.f2 = (void*)wo; last_w[e] = wo[2 * (N0 - 1)]; last_o[e] = wo[2 * (N0 - 1) + 1]; }
  path.f1 = el; path.f2 = NE;
  double w[NE], o[NE]; for (int e = 0; e < NE; e++) { w[e] = 2.0 * (double)nd_range(0, 50); o[e] = (double)nd_range(-50, 50); }
  double* wp = GIVEW ? &w[0] : (double*)0; double* op = GIVEO ? &o[0] : (double*)0;
  double pts[4] = {1, 2, 3, 4}; ARGT__ZN5gdstk8FlexPath7segmentENS_5ArrayINS_4Vec2EEEPKdS5_b_1 parr; parr.f0 = 2; parr.f1 = 2; parr.f2 = (void*)pts;
  ARGT__ZN5gdstk8FlexPath8verticalENS_5ArrayIdEEPKdS4_b_1 darr; darr.f0 = 2; darr.f1 = 2; darr.f2 = (void*)pts;
#if WR == 0
  _ZN5gdstk8FlexPath10horizontalEdPKdS2_b(&path, 5.0, wp, op, 0);
#elif WR == 1
  _ZN5gdstk8FlexPath8verticalENS_5ArrayIdEEPKdS4_b(&path, BYVAL(darr), wp, op, 1);
#elif WR == 2
  _ZN5gdstk8FlexPath7segmentENS_4Vec2EPKdS3_b(&path, 5.0, 6.0, wp, op, 0);
#elif WR == 3
  _ZN5gdstk8FlexPath7segmentENS_5ArrayINS_4Vec2EEEPKdS5_b(&path, BYVAL(parr), wp, op, 0);
#elif WR == 4
  _ZN5gdstk8FlexPath5cubicENS_5ArrayINS_4Vec2EEEPKdS5_b(&path, BYVAL(parr), wp, op, 0);
#elif WR == 5
  _ZN5gdstk8FlexPath3arcEdddddPKdS2_(&path, 1.0, 1.0, 0.0, 1.0, 0.0, wp, op);
#elif WR == 6
  _ZN5gdstk8FlexPath4turnEddPKdS2_(&path, 1.0, 1.0, wp, op);
#elif WR == 7
  _ZN5gdstk8FlexPath16quadratic_smoothENS_4Vec2EPKdS3_b(&path, 5.0, 6.0, wp, op, 1);
#elif WR == 8
  _ZN5gdstk8FlexPath6bezierENS_5ArrayINS_4Vec2EEEPKdS5_b(&path, BYVAL(parr), wp, op, 0);
#elif WR == 9
  _ZN5gdstk8FlexPath9quadraticENS_5ArrayINS_4Vec2EEEPKdS5_b(&path, BYVAL(parr), wp, op, 0);
#elif WR == 10
  _ZN5gdstk8FlexPath12cubic_smoothENS_5ArrayINS_4Vec2EEEPKdS5_b(&path, BYVAL(parr), wp, op, 0);
#elif WR == 11
  _ZN5gdstk8FlexPath10horizontalENS_5ArrayIdEEPKdS4_b(&path, BYVAL(darr), wp, op, 0);
#endif
#ifndef REAL
  CHECK(stub_calls == 1, "the wrapper forwards to exactly one curve construction method");
#endif
#ifdef REAL
  int KK = (int)path.f0.f0.f1 - N0;          /* replay against the real curve methods: they decide how many points are appended */
  CHECK(KK >= 0, "the spine only grows");
#else
  int KK = K;
  CHECK(path.f0.f0.f1 == N0 + K, "spine grew by the appended points");
#endif
  for (int e = 0; e < NE; e++) { Elem* x = &path.f1[e]; double* wo = (double*)x->f1.f2;
    CHECK(x->f1.f1 == path.f0.f0.f1, "one width/offset entry per spine point for every element");
    if (KK > 0 && x->f1.f1 == (uint64_t)(N0 + KK)) {
      CHECK(wo[2 * (N0 + KK - 1)] == (GIVEW ? 0.5 * w[e] : last_w[e]), "last half-width = requested width / 2, or the previous one when none is given");
      CHECK(wo[2 * (N0 + KK - 1) + 1] == (GIVEO ? o[e] : last_o[e]), "last offset = requested offset, or the previous one"); }
    for (int i = 0; i < N0; i++) CHECK(wo[2 * i] == ow[e][i] && wo[2 * i + 1] == oo[e][i], "earlier entries kept"); }
  WITNESS_POINT();
  return 0;
}
